#!/usr/bin/env python3
"""Sensitivity runner: applies each mutant to a scratch copy of /repo (never to /repo), confirms
the repository's own tests still pass, runs the named checks against the copy and reports whether
they raise a VIOLATION.  usage: tools/mutate.py [--tier quick] [--props C01,C02] [--no-tests] [ids...]"""
import os, sys, shutil, subprocess, json, argparse, importlib.util, time

VERIF = os.path.dirname(os.path.dirname(os.path.abspath(__file__)))
spec = importlib.util.spec_from_file_location("mutants", os.path.join(VERIF, "tools", "mutants.py"))
mod = importlib.util.module_from_spec(spec); spec.loader.exec_module(mod)
SCRATCH = "/tmp/smm_mut"


def apply(m, root):
    edits = m.get("edits") or [(m["file"], m["old"], m["new"])]
    for (f, old, new) in edits:
        p = os.path.join(root, "src/smoothmath/_private", f)
        s = open(p).read()
        cnt = s.count(old)
        want = m.get("count", 1)
        if cnt != want:
            raise SystemExit(f"mutant {m['id']}: pattern occurs {cnt} times in {f}, expected {want}")
        open(p, "w").write(s.replace(old, new))


def main():
    ap = argparse.ArgumentParser()
    ap.add_argument("ids", nargs="*")
    ap.add_argument("--tier", default="quick")
    ap.add_argument("--props", default=None)
    ap.add_argument("--no-tests", action="store_true")
    ap.add_argument("--seed", default="1")
    a = ap.parse_args()
    rows = []
    for m in mod.MUTANTS:
        if a.ids and m["id"] not in a.ids:
            continue
        props = m["props"]
        if a.props:
            props = [p for p in props if p in a.props.split(",")]
            if not props:
                continue
        root = os.path.join(SCRATCH, m["id"])
        shutil.rmtree(root, ignore_errors=True)
        os.makedirs(SCRATCH, exist_ok=True)
        subprocess.run(["rsync", "-a", "--exclude", ".git", "--exclude", "dist", "--exclude", "docs", "/repo/", root + "/"], check=True)
        try:
            apply(m, root)
            tests = "skipped"
            if not a.no_tests:
                r = subprocess.run(["/venv/bin/python", "-m", "pytest", "-q", "-p", "no:cacheprovider", "-x"], cwd=root,
                                   capture_output=True, text=True, env={**os.environ, "PYTHONPATH": root + "/src"})
                tests = "pass" if r.returncode == 0 else "FAIL"
            for pid in props:
                out = os.path.join(root, "_out")
                t0 = time.time()
                r = subprocess.run([os.path.join(VERIF, "check"), pid, "--tier", a.tier],
                                   capture_output=True, text=True,
                                   env={**os.environ, "VERIF_REPO": root, "VERIF_OUT": out, "VERIF_SEED": a.seed})
                viol = [l for l in r.stdout.splitlines() if l.startswith("VIOLATION")]
                detail = [l for l in r.stdout.splitlines() if l.startswith("  ")][:2]
                status = {0: "MISSED", 1: "caught", 2: "harness-error"}.get(r.returncode, f"rc={r.returncode}")
                rows.append((m["id"], pid, tests, status, round(time.time() - t0, 1)))
                print(f"{m['id']:40s} {pid} tests={tests:7s} {status:14s} {time.time()-t0:6.1f}s  {(detail[-1].strip()[:150] if detail else '')}", flush=True)
                if r.returncode == 2:
                    print("   " + "\n   ".join((r.stdout + r.stderr).splitlines()[-6:]))
        finally:
            shutil.rmtree(root, ignore_errors=True)
    return 0


if __name__ == "__main__":
    sys.exit(main())
