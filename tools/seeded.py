#!/usr/bin/env python3
"""Confirms and evaluates seeded breaking changes.

  tools/seeded.py confirm <src_dir> <seed_id> <property> [--also C05,C06]
      src_dir holds patch.diff, demo.py (and notes.txt) as written by an independent sub-agent.
      Confirms in a scratch copy of /repo (never in /repo): patch applies, the repository's tests
      pass with it, the demo fails with it and passes without it; then runs the named checks
      against the scratch copy and stores everything under /verif/seeded/<seed_id>/.
  tools/seeded.py rerun [seed_id ...] [--tier quick]
      Re-runs the recorded checks for stored seeds and updates meta.json.
"""
import argparse
import json
import os
import shutil
import subprocess
import sys
import time

VERIF = os.path.dirname(os.path.dirname(os.path.abspath(__file__)))
SCRATCH = "/tmp/smm_seeded"
PY = "/venv/bin/python"


def scratch_copy(name):
    root = os.path.join(SCRATCH, name)
    shutil.rmtree(root, ignore_errors=True)
    os.makedirs(SCRATCH, exist_ok=True)
    subprocess.run(["rsync", "-a", "--exclude", ".git", "--exclude", "dist", "--exclude", "docs", "--exclude", "out", "/repo/", root + "/"], check=True)
    return root


def run_tests(root):
    r = subprocess.run([PY, "-m", "pytest", "-q", "-p", "no:cacheprovider"], cwd=root, capture_output=True, text=True,
                       env={**os.environ, "PYTHONPATH": root + "/src"})
    tail = (r.stdout.strip().splitlines() or [""])[-1]
    return r.returncode == 0, tail


def run_demo(demo, src):
    r = subprocess.run([PY, demo], capture_output=True, text=True, env={**os.environ, "PYTHONPATH": src, "PYTHONHASHSEED": "0"}, timeout=600)
    return r.returncode, (r.stdout + r.stderr).strip()[-400:]


def run_check(pid, root, tier, seed="1"):
    out = os.path.join(root, "_out")
    t0 = time.time()
    r = subprocess.run([os.path.join(VERIF, "check"), pid, "--tier", tier], capture_output=True, text=True,
                       env={**os.environ, "VERIF_REPO": root, "VERIF_OUT": out, "VERIF_SEED": seed})
    lines = r.stdout.splitlines()
    viol = [l for l in lines if l.startswith("VIOLATION")]
    detail = [l.strip() for l in lines if l.startswith("  ")]
    status = {0: "missed", 1: "caught", 2: "harness-error"}.get(r.returncode, f"rc={r.returncode}")
    return {"check": pid, "tier": tier, "seed": int(seed), "status": status, "violations": len(viol),
            "first_message": (detail[1] if len(detail) > 1 else detail[0] if detail else "")[:400], "wall_s": round(time.time() - t0, 1),
            "tail": "" if r.returncode != 2 else (r.stdout + r.stderr)[-600:]}


def confirm(a):
    src = a.src_dir
    patch = os.path.join(src, "patch.diff")
    demo = os.path.join(src, "demo.py")
    root = scratch_copy(a.seed_id)
    meta = {"seed_id": a.seed_id, "property": a.property, "source": "independent sub-agent given only the property text and a scratch worktree"}
    try:
        r = subprocess.run(["patch", "-p1", "-i", patch], cwd=root, capture_output=True, text=True)
        if r.returncode != 0:
            print("PATCH DOES NOT APPLY", r.stdout, r.stderr)
            return 1
        ok, tail = run_tests(root)
        meta["repo_tests_with_change"] = tail
        rc_with, out_with = run_demo(demo, root + "/src")
        rc_without, out_without = run_demo(demo, "/repo/src")
        meta["demo_with_change"] = {"exit": rc_with, "output": out_with[-200:]}
        meta["demo_without_change"] = {"exit": rc_without, "output": out_without[-200:]}
        print(f"tests: {tail} | demo with change rc={rc_with} | without rc={rc_without}")
        if not ok or rc_with == 0 or rc_without != 0:
            print("NOT CONFIRMED: ", out_with[-300:], "||", out_without[-300:])
            return 1
        notes = os.path.join(src, "notes.txt")
        meta["needs_to_manifest"] = open(notes).read().strip() if os.path.exists(notes) else ""
        checks = [a.property] + ([c for c in a.also.split(",") if c] if a.also else [])
        meta["checks_run"] = []
        for pid in checks:
            res = run_check(pid, root, a.tier)
            meta["checks_run"].append(res)
            print(f"  {pid}: {res['status']} ({res['wall_s']}s) {res['first_message'][:200]}")
            if res["status"] == "harness-error":
                print(res["tail"])
        meta["what_i_ran"] = (f"scratch copy of /repo + patch -p1; pytest (must pass); demo.py with PYTHONPATH=<scratch>/src (must fail) and "
                              f"with /repo/src (must pass); VERIF_REPO=<scratch> ./check <ID> --tier {a.tier}")
        dst = os.path.join(VERIF, "seeded", a.seed_id)
        os.makedirs(dst, exist_ok=True)
        shutil.copy(patch, os.path.join(dst, "patch.diff"))
        shutil.copy(demo, os.path.join(dst, "demo.py"))
        with open(os.path.join(dst, "meta.json"), "w") as f:
            json.dump(meta, f, indent=1)
        return 0
    finally:
        shutil.rmtree(root, ignore_errors=True)


def rerun(a):
    base = os.path.join(VERIF, "seeded")
    ids = a.ids or sorted(os.listdir(base))
    for sid in ids:
        d = os.path.join(base, sid)
        meta = json.load(open(os.path.join(d, "meta.json")))
        root = scratch_copy(sid)
        try:
            r = subprocess.run(["patch", "-p1", "-i", os.path.join(d, "patch.diff")], cwd=root, capture_output=True, text=True)
            if r.returncode != 0:
                print(sid, "PATCH DOES NOT APPLY")
                continue
            checks = a.checks.split(",") if a.checks else sorted({c["check"] for c in meta.get("checks_run", [])} | {meta["property"]})
            new = []
            for pid in checks:
                res = run_check(pid, root, a.tier, a.seed)
                new.append(res)
                print(f"{sid:28s} {pid}: {res['status']:8s} {res['wall_s']:6.1f}s {res['first_message'][:160]}", flush=True)
                if res["status"] == "harness-error":
                    print(res["tail"])
            keep = [c for c in meta.get("checks_run", [])
                    if (c["check"], c["tier"], c.get("seed", 1)) not in {(n["check"], n["tier"], n["seed"]) for n in new}]
            meta["checks_run"] = keep + new
            with open(os.path.join(d, "meta.json"), "w") as f:
                json.dump(meta, f, indent=1)
        finally:
            shutil.rmtree(root, ignore_errors=True)
    return 0


def main():
    ap = argparse.ArgumentParser()
    sub = ap.add_subparsers(dest="cmd", required=True)
    c = sub.add_parser("confirm")
    c.add_argument("src_dir")
    c.add_argument("seed_id")
    c.add_argument("property")
    c.add_argument("--also", default="")
    c.add_argument("--tier", default="quick")
    r = sub.add_parser("rerun")
    r.add_argument("ids", nargs="*")
    r.add_argument("--tier", default="quick")
    r.add_argument("--checks", default="")
    r.add_argument("--seed", default="1")
    a = ap.parse_args()
    return confirm(a) if a.cmd == "confirm" else rerun(a)


if __name__ == "__main__":
    sys.exit(main())
