#!/usr/bin/env python3
"""Generates /verif/MANIFEST.json from the table below (keeps the 18 entries consistent)."""
import json
import os

VERIF = os.path.dirname(os.path.dirname(os.path.abspath(__file__)))

PBT = "property-based testing (Hypothesis @given, 16 sharded processes, seeded by VERIF_SEED)"
CHECKS = {
    "C01": dict(
        technique=PBT + " against an independent 50-digit mpmath reference interpreter with exact-Fraction track and running error bound",
        text="Generated expression trees/DAGs x points are evaluated by the library and by an independent mpmath/Fraction interpreter; values must agree within 8x a first-order rounding bound and exactly on the exact (integer/dyadic) track; bare-number evaluation must equal Point evaluation bit for bit. Exploration: held on everything generated, no absence claim.",
        note="Trusts mpmath at 50 digits, IEEE-754 doubles, libm within a few ulp; cases whose exact intermediates leave [1e-100,1e100] or sit within 4 eps of a domain boundary are skipped and counted.",
        ref="DESIGN.md section 4 C01"),
    "C02": dict(
        technique=PBT + " with boundary-injection and masking-context generators; oracle = reference interpreter's exact / with-margin domain decision",
        text="Besides random trees, constrained nodes are shifted exactly onto / 2^-k inside / 2^-k outside their boundary at the generated point and undefined sub-terms are placed in 14 masking contexts; at() must raise DomainError exactly when the reference decides 'undefined' and return a finite real when it decides 'defined'.",
        note="Undecidable cases (inexact value within 4 eps of a boundary) and out-of-range cases are skipped and counted; reference interpreter trusted.",
        ref="DESIGN.md section 4 C02"),
    "C03": dict(
        technique=PBT + " against an independent mpmath forward-mode AD with error bound, self-checked by 260-digit central differences; exact Fraction dual numbers on the polynomial fragment",
        text="Partial(e,v).at and Derivative(e).at (late) are compared with the true partial from a separately written dual-number interpreter; absent variables must give 0; on the polynomial fragment with a proven bit budget the result must be exact.",
        note="Reference AD trusted (cross-checked against central differences and a reverse sweep each run); tolerance 8x running bound; ill-conditioned and out-of-range cases skipped and counted.",
        ref="DESIGN.md section 4 C03"),
    "C04": dict(
        technique=PBT + " over DAG-heavy generators; oracle = reference AD per variable cross-checked with a reference reverse sweep",
        text="LocatedDifferential(e,p).component(v) and Differential(e).at(p).component(v) for every variable at once (repeated variables, shared sub-expression objects, products with exact-zero factors) against the true gradient; exact on the polynomial fragment.",
        note="As C03; reverse multipliers restricted to [1e-150,1e150].",
        ref="DESIGN.md section 4 C04"),
    "C05": dict(
        technique=PBT + "; oracle = reference AD at generated domain points, second derivative by definition (central difference of the reference first derivative), exact polynomial-identity testing at generated rational points",
        text="Every as_expression() route: result is an Expression with no foreign variable, defined and equal to the true partial wherever the original is defined, differentiable once more with the true second-order partial; rational-function fragment compared exactly as rational functions at 8 generated rational points.",
        note="KF1 failures attributed by suppressing exactly the unsound rule instance in-process; folded-constant rounding within 4 eps of the result's own boundary is excused.",
        ref="DESIGN.md section 4 C05"),
    "C06": dict(
        technique=PBT + "; differential oracle between all 14 numeric routes and between early/late as_expression()",
        text="All routes (Partial/Derivative/Differential/LocatedDifferential, early/late, after as_expression, variable as object or name) must agree in outcome class and, within summed rounding bounds, in value, inside and outside the domain; Partial/Derivative early and late as_expression() ==; Differential(e).component(v) == Partial(e,v); Differential(e).at(p) == LocatedDifferential(e,p).",
        note="Range/undecided cases skipped; KF1 attributed by rule suppression; structural equality of Differential components is not required (DESIGN.md 5.3).",
        ref="DESIGN.md section 4 C06"),
    "C07": dict(
        technique=PBT + " dominated by masking-context and boundary-injection generators; differential oracle against Expression.at at reference-decided points",
        text="Every numeric derivative route raises DomainError iff at() does, at points where the reference's domain decision is exact or has margin and agrees with at().",
        note="at() itself is C02's subject; KF1 and folded-constant rounding excuses as in C05.",
        ref="DESIGN.md section 4 C07"),
    "C08": dict(
        technique="exhaustive small-scope enumeration (all depth-3 skeletons, towers, n-ary mid-level shapes) + " + PBT + " with one template per rewrite rule and every constructor pair; metamorphic oracle on EVERY rewrite step (50-digit values, domain preservation, exact Fraction identity on the rational fragment); thorough tier adds atheris coverage-guided fuzzing of the same property",
        text="The harness drives _take_reduction_step itself and checks every step, the normal-form pass and end-to-end _normalize() (incl. budget-exhausting 300-900 node inputs): defined input point => defined, equal-valued output.",
        note="Uses the private stepping entry points the repository's tests use; KF1 steps identified by their redex (root of even power, both even).",
        ref="DESIGN.md section 4 C08"),
    "C09": dict(
        technique="model-based stateful testing (Hypothesis RuleBasedStateMachine); oracle = the same operation on a never-used, unshared deep copy",
        text="Histories of 10-80 operations over pools of expressions sharing sub-expression objects, persistent derivative objects, returned expressions, failing calls; after every operation the answer must be bit-identical to a fresh copy's.",
        note="Fresh copy replays only route-determining history of a derivative object; KF2 (shape of budget-exhausted results) compared by value only.",
        ref="DESIGN.md section 4 C09"),
    "C10": dict(
        technique="model-based stateful testing (Hypothesis RuleBasedStateMachine) + exhaustive small-scope enumeration; invariant = creation-time snapshots of every pooled object / every sub-expression object after every operation",
        text="After every operation every pooled expression, point and derivative object must still equal, print as, hash as and evaluate like a fresh copy of its creation-time model.",
        note="Structure is read through the private child attributes.",
        ref="DESIGN.md section 4 C10"),
    "C11": dict(
        technique="exhaustive small-scope enumeration (depth-3 skeletons over all constructors) + " + PBT + "; invariant over the rewrite trace",
        text="From every enumerated/generated input the step trace never repeats a form, stays within s^2+10s+50 steps and 3s+10 nodes, ends in a form on which no rule fires, and inputs of <= 20 nodes never trigger the library's step-budget warning.",
        note="Quick tier enumerates a VERIF_SEED-chosen 1/16 slice of the binary-parent and n-ary-mid skeletons (all other blocks completely); thorough enumerates all ~540k.",
        ref="DESIGN.md section 4 C11"),
    "C12": dict(
        technique=PBT + " over pairs/triples incl. one-change siblings; oracle = independently written canonical-model equality",
        text="== / != / hash / set / dict behaviour of expressions, points and derivative objects against structural equality; equivalence laws; foreign objects never equal and never raise.",
        note="Finite numeric content.",
        ref="DESIGN.md section 4 C12"),
    "C13": dict(
        technique=PBT + "; round-trip oracle eval(repr(o)) == o, injectivity on one-change siblings",
        text="repr/str of expressions, points and derivative objects evaluate back (public names only) to an equal object with the same structure; unequal siblings print differently; derivative objects print as their constructor call.",
        note="Point names restricted to NFKC-stable non-keyword identifiers.",
        ref="DESIGN.md section 4 C13"),
    "C14": dict(
        technique=PBT + " over legal-name alphabets and supplied-coordinate subsets; oracle = model variable set",
        text="CoordinateMissing never when all occurring variables are supplied (all routes, simplified outputs); no value when one is missing; bare number / Derivative accepted iff <= 1 variable; every legal name usable as coordinate.",
        note="Any exception counts as 'no value' when a coordinate is missing.",
        ref="DESIGN.md section 4 C14"),
    "C15": dict(
        technique=PBT + "; oracle = model of the constructor call, object identity of operands",
        text="Operators build exactly the named constructors holding the operand objects, integral exponents give NthPower with int n, foreign operands and illegal exponents raise.",
        note="bool exponents unspecified, not asserted.",
        ref="DESIGN.md section 4 C15"),
    "C16": dict(
        technique=PBT + " over arguments from well inside to well outside the documented ranges; oracle = independently written spec predicate",
        text="Constructors raise iff the spec predicate says ill-formed; on success n/base/name/value/operands are reported back as given (n as int).",
        note="Name predicate verified equal to regex \\w over all code points.",
        ref="DESIGN.md section 4 C16"),
    "C17": dict(
        technique=PBT + " with exception bucketing by (type, innermost library frame); thorough tier adds atheris coverage-guided fuzzing of the same property",
        text="Every API route on range-filtered cases (inside/outside/on boundaries, missing coordinates, exact-zero operands) returns a finite real / Expression or raises DomainError / CoordinateMissing.",
        note="OverflowError/MemoryError on out-of-range intermediates counted as range.",
        ref="DESIGN.md section 4 C17"),
    "C18": dict(
        technique=PBT + " with a cross-process differential oracle: persistent worker processes under distinct PYTHONHASHSEED values, permuted coordinate and variable-creation orders",
        text="The same battery of evaluations, derivative routes and simplifications must answer byte-identically in 4 processes per case (48 distinct hash seeds per run).",
        note="Covers the hash seeds actually run.",
        ref="DESIGN.md section 4 C18"),
}

NOT_YET = {}


def main():
    props = [json.loads(l) for l in open(os.path.join(VERIF, "properties.jsonl"))]
    checks = []
    not_applicable = []
    for p in props:
        pid = p["id"]
        if pid in CHECKS:
            c = CHECKS[pid]
            checks.append({
                "property_id": pid,
                "quick_cmd": f"./check {pid} --tier quick",
                "thorough_cmd": f"./check {pid} --tier thorough",
                "evidence_file": f"evidence/{pid}.json",
                "replay_cmd_template": f"./check {pid} --replay {{path}}",
                "engine": "harness",
                "level_claimed": {"category": "exploration", "text": c["text"], "design_ref": c["ref"]},
                "level_note": c["note"],
                "technique": c["technique"],
            })
        else:
            not_applicable.append({"property_id": pid, "reason": NOT_YET.get(pid, "check not built yet (work in progress; the technique applies, see DESIGN.md section 4)")})
    man = {
        "version": 1,
        "setup_cmd": "./setup.sh --with-atheris",
        "hooks": {
            "guard": "SMOOTHMATH_VERIF",
            "enable": "no hooks exist: the checks import /repo/src from the working tree (PYTHONPATH) and use the public API plus the private entry points the repository's own tests use; ./check exports SMOOTHMATH_VERIF=1 for uniformity",
            "baseline_off_cmd": "cd /repo && /venv/bin/python -m pytest -q -p no:cacheprovider --timeout=900",
            "source_commits": [],
            "add_only": True,
        },
        "engines": [{
            "name": "harness",
            "path": "harness/",
            "serves_properties": [c["property_id"] for c in checks],
            "kind_free_text": "Hypothesis property-based testing (given + stateful), exhaustive small-scope enumeration, atheris coverage-guided fuzzing of the same properties in the thorough tier; oracles: mpmath/Fraction reference interpreter and reference AD, differential, metamorphic, model-based",
        }],
        "checks": checks,
        "not_applicable": not_applicable,
        "notes": "All checks: ./check <ID> --tier quick|thorough; exit 0 held / 1 VIOLATION / 2 harness error. VERIF_SEED selects the seed. Known findings: known_findings.txt. See DESIGN.md.",
    }
    with open(os.path.join(VERIF, "MANIFEST.json"), "w") as f:
        json.dump(man, f, indent=1)
    print("wrote MANIFEST.json with", len(checks), "checks,", len(not_applicable), "not applicable")


if __name__ == "__main__":
    main()
