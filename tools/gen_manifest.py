#!/usr/bin/env python3
"""Generates /verif/MANIFEST.json from the table below (keeps the 18 entries consistent)."""
import json
import os

VERIF = os.path.dirname(os.path.dirname(os.path.abspath(__file__)))

CHECKS = {
    "C01": dict(
        technique="property-based testing (Hypothesis) against an independent 50-digit reference interpreter with exact-Fraction track and running error bound",
        text="Generated expression trees/DAGs x points are evaluated by the library and by an independent mpmath/Fraction interpreter; values must agree within 8x a first-order rounding bound and exactly on the exact (integer/dyadic) track; bare-number evaluation must equal Point evaluation bit for bit. Exploration: held on everything generated, no absence claim.",
        note="Trusts mpmath at 50 digits, IEEE-754 doubles, libm within a few ulp; cases whose exact intermediates leave [1e-100,1e100] or sit within 4 eps of a domain boundary are skipped and counted.",
        ref="DESIGN.md section 4 C01"),
}

NOT_YET = {}


def main():
    props = [json.loads(l) for l in open(os.path.join(VERIF, "properties.jsonl"))]
    checks = []
    not_applicable = []
    for p in props:
        pid = p["id"]
        if pid in CHECKS:
            c = CHECKS[pid]
            checks.append({
                "property_id": pid,
                "quick_cmd": f"./check {pid} --tier quick",
                "thorough_cmd": f"./check {pid} --tier thorough",
                "evidence_file": f"evidence/{pid}.json",
                "replay_cmd_template": f"./check {pid} --replay {{path}}",
                "engine": "harness",
                "level_claimed": {"category": "exploration", "text": c["text"], "design_ref": c["ref"]},
                "level_note": c["note"],
                "technique": c["technique"],
            })
        else:
            not_applicable.append({"property_id": pid, "reason": NOT_YET.get(pid, "check not built yet (work in progress; the technique applies, see DESIGN.md section 4)")})
    man = {
        "version": 1,
        "setup_cmd": "./setup.sh --with-atheris",
        "hooks": {
            "guard": "SMOOTHMATH_VERIF",
            "enable": "no hooks exist: the checks import /repo/src from the working tree (PYTHONPATH) and use the public API plus the private entry points the repository's own tests use; ./check exports SMOOTHMATH_VERIF=1 for uniformity",
            "baseline_off_cmd": "cd /repo && /venv/bin/python -m pytest -q -p no:cacheprovider --timeout=900",
            "source_commits": [],
            "add_only": True,
        },
        "engines": [{
            "name": "harness",
            "path": "harness/",
            "serves_properties": [c["property_id"] for c in checks],
            "kind_free_text": "Hypothesis property-based testing (given + stateful), exhaustive small-scope enumeration, atheris coverage-guided fuzzing of the same properties in the thorough tier; oracles: mpmath/Fraction reference interpreter and reference AD, differential, metamorphic, model-based",
        }],
        "checks": checks,
        "not_applicable": not_applicable,
        "notes": "All checks: ./check <ID> --tier quick|thorough; exit 0 held / 1 VIOLATION / 2 harness error. VERIF_SEED selects the seed. Known findings: known_findings.txt. See DESIGN.md.",
    }
    with open(os.path.join(VERIF, "MANIFEST.json"), "w") as f:
        json.dump(man, f, indent=1)
    print("wrote MANIFEST.json with", len(checks), "checks,", len(not_applicable), "not applicable")


if __name__ == "__main__":
    main()
