#!/bin/bash
# Offline, idempotent: installs the pure-Python oracle/driver dependencies (hypothesis, mpmath,
# and atheris for the thorough fuzz stage) from the local wheelhouse into ./.deps
set -u
HERE="$(cd "$(dirname "$0")" && pwd)"
PY=/venv/bin/python
WHEELS=/opt/veriftools/wheels
DEPS="$HERE/.deps"
mkdir -p "$DEPS"
(
  flock 9
  if ! PYTHONPATH="$DEPS" $PY -c "import hypothesis, mpmath, sortedcontainers" >/dev/null 2>&1; then
    PIP_NO_INDEX=1 $PY -m pip install --quiet --no-index --find-links "$WHEELS" --target "$DEPS" --upgrade \
        hypothesis mpmath >/dev/null 2>&1 || { echo "HARNESS-ERROR cannot install hypothesis/mpmath from $WHEELS"; exit 2; }
  fi
  if [ "${1:-}" = "--with-atheris" ]; then
    if ! PYTHONPATH="$DEPS" $PY -c "import atheris" >/dev/null 2>&1; then
      PIP_NO_INDEX=1 $PY -m pip install --quiet --no-index --find-links "$WHEELS" --target "$DEPS" atheris >/dev/null 2>&1 \
        || echo "note: atheris not installable; fuzz stage will be skipped"
    fi
  fi
  PYTHONPATH="$DEPS" $PY -c "import hypothesis, mpmath" || { echo "HARNESS-ERROR deps not importable"; exit 2; }
) 9>"$DEPS/.lock"
