"""C18 worker: runs the fixed battery on cases read from stdin (one JSON per line) and prints one
JSON line of byte-exact answers per case.  Started with its own PYTHONHASHSEED."""
from __future__ import annotations
import json
import logging
import sys


def battery(case):
    from harness import model as M
    from harness import lib
    from harness.build import build
    from harness import deriv as DV
    import smoothmath.expression as sx
    logging.getLogger().handlers[:] = [logging.NullHandler()]
    m = M.from_json(case["model"])
    point = {k: M.num_from_json(v) for k, v in case["point"]}      # in the order given (coordinate order)
    for name in case["creation_order"]:                             # variables first created in this order
        sx.Variable(name)
    memo = {}
    for name in case["creation_order"]:
        for x in M.subterms(m):
            if x[0] == "Variable" and x[1] == name:
                build(x, share=True, memo=memo)
    names = case["names"]

    def fmt(out):
        if out.kind == lib.NUM:
            v = out.value
            return "num:" + type(v).__name__ + ":" + (v.hex() if isinstance(v, float) else str(v))
        if out.kind == lib.EXPR:
            return "expr:" + repr(out.value)
        if out.kind == lib.EXC:
            return "exc:" + out.detail[0]
        if out.kind == lib.WEIRD:
            return "weird:" + str(out.detail)
        if out.kind in (lib.DOM, lib.MISS):
            # which sub-expression / which coordinate the library's own error names is part of the outcome
            return out.kind + ":" + str(out.detail)
        return out.kind
    res = []

    def run(label, f):
        res.append([label, fmt(lib.call(f))])
    P = lambda: lib.Point(**point)  # noqa
    run("at", lambda: build(m, memo=dict(memo)).at(P()))
    run("_normalize", lambda: build(m, memo=dict(memo))._normalize())
    for v in names[:3]:
        for rt in ("Partial.at/late", "Partial.at/early", "Differential.at.component/late", "Differential.at.component/early",
                   "Differential.component_at/late", "LocatedDifferential.component"):
            run(f"{rt}[{v}]", lambda: _numeric(rt, m, memo, point, v))
        for rt in ("Partial.as_expression/late", "Differential(early).component.as_expression"):
            run(f"{rt}[{v}]", lambda: _symbolic(rt, m, memo, v))
    # the whole gradient in the order the library reports it for the names asked, and a repr of the objects
    run("repr", lambda: build(m, memo=dict(memo)))      # an Expression: formatted through its repr
    return res


def _numeric(rt, m, memo, point, v):
    from harness import lib
    from harness.build import build
    e = build(m, memo=dict(memo))
    P = lib.Point(**point)
    early = rt.endswith("/early")
    if rt.startswith("Partial.at/late-after"):
        q = lib.Partial(e, v)
        q.as_expression()
        return q.at(P)
    if rt.startswith("Partial.at"):
        return lib.Partial(e, v, compute_early=early).at(P)
    if rt.startswith("Differential.component.at"):
        return lib.Differential(e, compute_early=early).component(v).at(P)
    if rt.startswith("Differential.component_at"):
        return lib.Differential(e, compute_early=early).component_at(v, P)
    if rt.startswith("Differential.at.component"):
        return lib.Differential(e, compute_early=early).at(P).component(v)
    return lib.LocatedDifferential(e, P).component(v)


def _symbolic(rt, m, memo, v):
    from harness import lib
    from harness.build import build
    e = build(m, memo=dict(memo))
    if rt == "Partial.as_expression/late":
        return lib.Partial(e, v).as_expression()
    if rt == "Partial.as_expression/early":
        return lib.Partial(e, v, compute_early=True).as_expression()
    return lib.Differential(e, compute_early=True).component(v).as_expression()


def main():
    sys.setrecursionlimit(20000)
    for line in sys.stdin:
        line = line.strip()
        if not line:
            continue
        if line == "QUIT":
            break
        try:
            out = {"ok": battery(json.loads(line))}
        except Exception as ex:  # noqa
            import traceback
            out = {"error": f"{type(ex).__name__}: {ex}", "trace": traceback.format_exc()[-800:]}
        sys.stdout.write(json.dumps(out) + "\n")
        sys.stdout.flush()


if __name__ == "__main__":
    main()
