"""C09 worker: executes lists of operations, each on a freshly built expression, and prints byte-exact answers.
Used by the 'order' part: the parent runs a list in order, a separate process runs the same list in REVERSE order
(same PYTHONHASHSEED); on fresh objects the answers may not depend on what the process did before."""
from __future__ import annotations
import json
import logging
import sys

OPS = ["at", "normalize", "partial_expr", "partial_expr_early", "differential_expr", "partial_at_late", "partial_at_early", "located"]


def fmt(out):
    from harness import lib
    if out.kind == lib.NUM:
        v = out.value
        return "num:" + type(v).__name__ + ":" + (v.hex() if isinstance(v, float) else str(v))
    if out.kind == lib.EXPR:
        return "expr:" + repr(out.value)
    if out.kind == lib.EXC:
        return "exc:" + str(out.detail[0])
    if out.kind == lib.WEIRD:
        return "weird:" + str(out.detail)
    return out.kind


def run_ops(ops):
    from harness import model as M
    from harness import lib
    from harness.build import build
    logging.getLogger().handlers[:] = [logging.NullHandler()]
    res = []
    for op in ops:
        m = M.from_json(op["model"])
        e = build(m)
        var = op.get("var", "x")
        point = {k: M.num_from_json(v) for k, v in op.get("point", [])}
        P = lambda: lib.Point(**point)  # noqa
        kind = op["op"]
        if kind == "at":
            f = lambda: e.at(P())  # noqa
        elif kind == "normalize":
            f = lambda: e._normalize()  # noqa
        elif kind == "partial_expr":
            f = lambda: lib.Partial(e, var).as_expression()  # noqa
        elif kind == "partial_expr_early":
            f = lambda: lib.Partial(e, var, compute_early=True).as_expression()  # noqa
        elif kind == "differential_expr":
            f = lambda: lib.Differential(e, compute_early=True).component(var).as_expression()  # noqa
        elif kind == "partial_at_late":
            f = lambda: lib.Partial(e, var, compute_early=False).at(P())  # noqa
        elif kind == "partial_at_early":
            f = lambda: lib.Partial(e, var, compute_early=True).at(P())  # noqa
        elif kind == "located":
            f = lambda: lib.LocatedDifferential(e, P()).component(var)  # noqa
        else:
            raise ValueError(f"unknown op {kind}")
        res.append(fmt(lib.call(f)))
    return res


def main():
    sys.setrecursionlimit(20000)
    for line in sys.stdin:
        line = line.strip()
        if not line:
            continue
        if line == "QUIT":
            break
        try:
            out = {"ok": run_ops(json.loads(line))}
        except Exception as ex:  # noqa
            import traceback
            out = {"error": f"{type(ex).__name__}: {ex}", "trace": traceback.format_exc()[-800:]}
        sys.stdout.write(json.dumps(out) + "\n")
        sys.stdout.flush()


if __name__ == "__main__":
    main()
