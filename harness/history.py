"""World: a pool of expressions sharing sub-expression objects, persistent derivative objects and
points, plus the operations of a history.  Plain Python (no Hypothesis) so that a recorded history
can be replayed as is.  Used by C09 (answers vs never-used fresh copies) and C10 (snapshots).

Every operation is described by a JSON-able dict `d`; World.apply(d) executes it on the live,
shared objects and (mode 'c09') on fresh, never-used, unshared copies, and compares.
"""
from __future__ import annotations
import math
from . import model as M
from . import lib
from .build import build, fresh, to_model, HarnessError
from .lib import Point, Partial, Derivative, Differential, LocatedDifferential
import smoothmath.expression as sx


def _sanitize(m):
    from harness.sanitize import sanitize
    return sanitize(m)




class Mismatch(Exception):
    def __init__(self, sub, sig, message):
        super().__init__(message)
        self.sub = sub
        self.sig = sig
        self.message = message


def enc_num(v):
    return M.num_to_json(v)


def dec_num(j):
    return M.num_from_json(j)


def enc_point(p):
    return [[k, enc_num(v)] for k, v in p.items()]


def dec_point(j):
    return {k: dec_num(v) for k, v in j}


class World:
    def __init__(self, mode):
        self.mode = mode                  # 'c09' or 'c10'
        self.models = []                  # pool: model tuples (identity = object sharing)
        self.objs = []                    # pool: live smoothmath expressions
        self.memo = {}                    # id(model node) -> live object (one object per model node)
        self.unmemo = {}                  # id(live object) -> model node (for expressions the library returned)
        self.keep = []
        self.derivs = []                  # persistent derivative objects: dict(kind, i, var, early, asexpr, obj)
        self.points = []                  # C10: (Point object, dict snapshot)
        self.snap = []                    # C10: per pool entry (canon, repr, hash-of-fresh)
        self.history = []
        self.features = set()
        self.ops = 0
        self.failed_before = False
        self.simplified_before = False
        self.points_used = {}             # pool index -> set of point keys
        self.warn = lib.budget_warnings()
        self.known_kf2 = 0
        self.adopt_results = True         # returned expressions re-enter the pool

    # -- pool -----------------------------------------------------------------------------------
    def encode(self, m):
        """model -> JSON with references to pool members (identity)."""
        index = {id(pm): i for i, pm in enumerate(self.models)}

        def go(x):
            if id(x) in index:
                return {"pool": index[id(x)]}
            t = x[0]
            if t == "Constant":
                return {"t": t, "v": enc_num(x[1])}
            if t == "Variable":
                return {"t": t, "v": x[1]}
            if t in M.UNARY:
                return {"t": t, "c": [go(x[1])]}
            if t in M.PARAM_N or t in M.PARAM_BASE:
                return {"t": t, "c": [go(x[1])], "p": enc_num(x[2])}
            if t in M.BINARY:
                return {"t": t, "c": [go(x[1]), go(x[2])]}
            return {"t": t, "c": [go(c) for c in x[1]]}
        return go(m)

    def decode(self, j):
        if "pool" in j:
            return self.models[j["pool"]]
        t = j["t"]
        if t == "Constant":
            return (t, dec_num(j["v"]))
        if t == "Variable":
            return (t, j["v"])
        cs = [self.decode(c) for c in j["c"]]
        if t in M.UNARY:
            return (t, cs[0])
        if t in M.PARAM_N or t in M.PARAM_BASE:
            return (t, cs[0], dec_num(j["p"]))
        if t in M.BINARY:
            return (t, cs[0], cs[1])
        return (t, tuple(cs))

    def add_model(self, m, obj=None):
        if obj is None:
            obj = build(m, share=True, memo=self.memo)
            self._index_objects(m, obj)
        self.models.append(m)
        self.objs.append(obj)
        self.keep.append(obj)
        if self.mode == "c10":
            f = fresh(m)
            self.snap.append((M.canon(m), repr(f), hash(f)))
        return len(self.models) - 1

    def adopt(self, expr):
        """An expression the library returned joins the pool (its model preserves object identity
        with everything already known)."""
        m = to_model(expr, self.unmemo)
        self.keep.append(expr)
        # make later builds of this model node resolve to this very object
        self._index_objects(m, expr)
        return self.add_model(m, expr)

    def _index_objects(self, m, obj):
        """Record model-node <-> object correspondence for obj's whole graph."""
        stack = [(m, obj)]
        seen = set()
        while stack:
            mm, oo = stack.pop()
            if id(mm) in seen:
                continue
            seen.add(id(mm))
            self.memo.setdefault(id(mm), oo)
            self.unmemo.setdefault(id(oo), mm)
            self.keep.append(mm)
            kids_m = M.children(mm)
            t = mm[0]
            kids_o = None
            if type(oo).__name__ == t:
                if t in M.NARY:
                    kids_o = list(getattr(oo, "_inners", ()))
                elif t in M.BINARY:
                    kids_o = [getattr(oo, "_left", None), getattr(oo, "_right", None)]
                elif kids_m:
                    kids_o = [getattr(oo, "_inner", None)]
                else:
                    kids_o = []
            if kids_o is None or len(kids_o) != len(kids_m) or any(k is None for k in kids_o):
                # an object built earlier from this model node no longer has the constructor / arity it was built with:
                # something changed it in place.  Observable through the public API: it no longer equals a fresh copy.
                f = fresh(mm)
                if not (oo == f) or repr(oo) != repr(f):
                    raise Mismatch("snapshot", f"object-changed-in-place:{t}",
                                   f"an expression object built as {M.text(mm)[:250]} now prints {repr(oo)[:250]} and "
                                   f"{'equals' if oo == f else 'no longer equals'} a freshly built copy (it was changed in place by an earlier operation)")
                raise HarnessError(f"model/object structure mismatch without an observable difference at {M.text(mm)[:200]}")
            stack.extend(zip(kids_m, kids_o))

    # -- operations -----------------------------------------------------------------------------
    def apply(self, d):
        self.history.append(d)
        self.ops += 1
        op = d["op"]
        if op == "add":
            m = _sanitize(self.decode(d["node"]))
            self.add_model(m)
            if M.shared_nodes(m) > 0 or any(id(x) in {id(pm) for pm in self.models[:-1]} for x in M.subterms(m)[1:]):
                self.features.add("shared")
            return None
        if op == "point_mutation":
            return self._point_mutation(d)
        if op == "probe":
            return self._probe(d)
        if op == "make_deriv":
            return self._make_deriv(d)
        return self._query(d)

    # a query: run on live objects, then (c09) on fresh copies
    def _query(self, d):
        op = d["op"]
        live_fn, fresh_fn, expr_result = self._thunks(d)
        n0 = self.warn.n
        a = lib.call(live_fn)
        n1 = self.warn.n
        i = d.get("i")
        if i is None and "j" in d:
            i = self.derivs[d["j"]]["i"]
        pk = repr(d.get("point"))
        if i is not None:
            used = self.points_used.setdefault(i, set())
            if used and pk not in used and "shared" in self.features:
                self.features.add("shared-other-point")
            # any pool member sharing nodes with i counts as well
            used.add(pk)
        if self.failed_before:
            self.features.add("after-failure")
        if self.simplified_before and op != "as_expression":
            self.features.add("after-simplification")
        if a.kind in (lib.DOM, lib.MISS):
            self.failed_before = True
        if op in ("as_expression", "deriv_as_expression") or d.get("early"):
            self.simplified_before = True
        if self.mode == "c09" or op.startswith("deriv_"):
            # C10 too: a persistent derivative object must keep answering like a freshly built one
            b = lib.call(fresh_fn)
            n2 = self.warn.n
            self._compare(d, a, b, budget_hit=(n1 > n0 or n2 > n1))
            self._compare_never_used(d, a)
        if self.adopt_results and a.kind == lib.EXPR and expr_result and len(self.models) < 14 and M.size(to_model(a.value)) <= 300:
            self.adopt(a.value)
        return a

    def _compare(self, d, a, b, budget_hit):
        if a.kind == lib.OVF or b.kind == lib.OVF:
            return
        if a.kind == lib.EXPR and b.kind == lib.EXPR:
            same = (repr(a.value) == repr(b.value)) and (a.value == b.value)
            if same:
                return
            if budget_hit:
                # KF2: only the *shape* of a budget-exhausted result may depend on memo flags
                from . import known
                if known.listed("C09", "KF2") and self._values_agree(a.value, b.value):
                    self.known_kf2 += 1
                    return
            raise Mismatch("history", f"expr:{d['op']}",
                           f"operation {self.describe(d)} on the used, shared objects returned {str(a.value)[:200]} but a "
                           f"never-used copy returns {str(b.value)[:200]}")
        if budget_hit and a.kind == lib.NUM and b.kind == lib.NUM and a.key() != b.key():
            # KF2 through a number: an early route evaluated a budget-exhausted simplified partial whose SHAPE (known
            # finding) differs between the used and the fresh objects; the two equivalent expressions round differently
            from . import known
            scale = max(abs(a.value), abs(b.value))
            if known.listed("C09", "KF2") and abs(a.value - b.value) <= 1e-9 * scale + 1e-300:
                self.known_kf2 += 1
                return
        ka, kb = a.key(), b.key()
        if a.kind == lib.EXC and b.kind == lib.EXC:
            ka, kb = (a.kind, a.detail[0]), (b.kind, b.detail[0])
        if ka != kb:
            raise Mismatch("history", f"{d['op']}:{a.kind}/{b.kind}",
                           f"operation {self.describe(d)} on the used, shared objects gave {a!r} but a never-used copy gives {b!r}")

    def _compare_never_used(self, d, a):
        """The fresh copy above replays the derivative object's route (whether as_expression() was called), because at
        INCOMPLETE points the routes legitimately differ (DESIGN 5.3).  At a COMPLETE point every route raises DomainError
        exactly where the expression is undefined (C06/C07), so there a derivative object on which as_expression() has been
        called must not return a number where a truly never-used object (same constructor arguments, nothing else)
        raises DomainError.  One direction only: the other one (used raises, never-used returns) is what KF1 and the
        rounding of folded constants next to a pole produce on the simplified route (DESIGN 5.2, 5.3)."""
        op = d["op"]
        if a.kind != lib.NUM:
            return
        if op == "deriv_at":
            rec = self.derivs[d["j"]]
            kind, var, early, i = rec["kind"], rec["var"], rec["early"], rec["i"]
            if not rec["asexpr"] or early or kind not in ("Partial", "Derivative"):
                return
            bare = d.get("bare")
        elif op == "partial_asexpr_at":
            kind, var, early, i, bare = "Partial", d.get("var"), False, d["i"], None
        else:
            return
        m = self.models[i]
        P = dec_point(d["point"])
        if not set(M.variables(m)) <= set(P):
            return
        c = lib.call(lambda: self._deriv_at(self._construct(kind, fresh(m), var, early), kind, P, var, bare))
        self.never_used_compared = getattr(self, "never_used_compared", 0) + 1
        if c.kind != lib.DOM:
            return
        # ... and only where the expression itself has no value: the numeric route of the never-used object can also raise
        # DomainError because an intermediate of a DERIVATIVE formula underflows (-1/x^2 at x = 2.5e-179: out of the
        # properties' range clause; sweep seed 84).  The route after as_expression() evaluates the original first, so when
        # a never-used copy of the expression raises DomainError the used object must raise it too.
        if d.get("bare"):
            o = lib.call(lambda: fresh(m).at(next(iter(P.values()), 1.5)))
        else:
            o = lib.call(lambda: fresh(m).at(Point(**P)))
        if o.kind == lib.DOM:
            raise Mismatch("history", f"{op}:number-where-never-used-raises",
                           f"operation {self.describe(d)} on a derivative object whose as_expression() was called earlier gave "
                           f"{a!r} but a never-used {kind} of a never-used copy gives {c!r} (complete point)")

    def _values_agree(self, e1, e2):
        from . import refeval as RE
        m1, m2 = to_model(e1), to_model(e2)
        names = sorted(set(M.variables(m1)) | set(M.variables(m2)))
        for vals in ([1.5, -0.75, 2.25, 0.5, 3.0], [-1.25, 0.375, -2.5, 1.75, 0.625], [0.9, 1.1, 1.3, 0.7, 2.1]):
            env = {n: vals[k % 5] for k, n in enumerate(names)}
            r1, _ = RE.evaluate(m1, env, const_ulps=2.0)
            r2, _ = RE.evaluate(m2, env, const_ulps=2.0)
            if r1.st != r2.st and RE.DEFINED in (r1.st, r2.st) and RE.UNDEF in (r1.st, r2.st):
                return False
            if r1.st == RE.DEFINED and r2.st == RE.DEFINED:
                if abs(r1.v - r2.v) > 64 * (r1.eps + r2.eps) + 1e-300:
                    return False
        return True

    def _thunks(self, d):
        op = d["op"]
        if op in ("deriv_at", "deriv_as_expression", "deriv_component"):
            rec = self.derivs[d["j"]]
            i, var, kind, early = rec["i"], rec["var"], rec["kind"], rec["early"]
            m = self.models[i]

            def fresh_obj():
                e = fresh(m)
                o = self._construct(kind, e, var, early)
                if rec["asexpr"] and kind in ("Partial", "Derivative"):
                    o.as_expression()
                return o
            if op == "deriv_at":
                P = dec_point(d["point"])
                return (lambda: self._deriv_at(rec["obj"], kind, P, var, d.get("bare")),
                        lambda: self._deriv_at(fresh_obj(), kind, P, var, d.get("bare")), False)
            if op == "deriv_component":
                P = dec_point(d["point"])
                return (lambda: rec["obj"].component(var).at(Point(**P)),
                        lambda: fresh_obj().component(var).at(Point(**P)), False)

            def live_asexpr():
                r = rec["obj"].as_expression() if kind != "Differential" else rec["obj"].component(var).as_expression()
                rec["asexpr"] = True
                return r
            return (live_asexpr,
                    lambda: (fresh_obj().as_expression() if kind != "Differential" else fresh_obj().component(var).as_expression()),
                    True)
        i = d["i"]
        m = self.models[i]
        e = self.objs[i]
        var = d.get("var")
        early = bool(d.get("early"))
        P = dec_point(d["point"]) if "point" in d else None

        def both(f):
            return (lambda: f(e), lambda: f(fresh(m)))
        if op == "at":
            if d.get("bare"):
                vs = M.variables(m)
                number = P.get(vs[0], 1.5) if vs else 1.5
                a, b = both(lambda x: x.at(number))
            else:
                a, b = both(lambda x: x.at(Point(**P)))
            return a, b, False
        if op == "partial_at":
            a, b = both(lambda x: Partial(x, var, compute_early=early).at(Point(**P)))
            return a, b, False
        if op == "partial_asexpr_at":
            def f(x):
                q = Partial(x, var)
                q.as_expression()
                return q.at(Point(**P))
            a, b = both(f)
            return a, b, False
        if op == "derivative_at":
            a, b = both(lambda x: Derivative(x, compute_early=early).at(Point(**P)))
            return a, b, False
        if op == "located":
            a, b = both(lambda x: LocatedDifferential(x, Point(**P)).component(var))
            return a, b, False
        if op == "differential_at":
            a, b = both(lambda x: Differential(x, compute_early=early).at(Point(**P)).component(var))
            return a, b, False
        if op == "component_at":
            a, b = both(lambda x: Differential(x, compute_early=early).component_at(var, Point(**P)))
            return a, b, False
        if op == "as_expression":
            route = d.get("route", "Partial")
            if route == "Partial":
                a, b = both(lambda x: Partial(x, var, compute_early=early).as_expression())
            elif route == "Derivative":
                a, b = both(lambda x: Derivative(x, compute_early=early).as_expression())
            else:
                a, b = both(lambda x: Differential(x, compute_early=True).component(var).as_expression())
            return a, b, True
        if op == "normalize":
            a, b = both(lambda x: x._normalize())
            return a, b, True
        raise HarnessError(f"unknown operation {op}")

    @staticmethod
    def _construct(kind, e, var, early):
        if kind == "Partial":
            return Partial(e, var, compute_early=early)
        if kind == "Derivative":
            return Derivative(e, compute_early=early)
        return Differential(e, compute_early=early)

    @staticmethod
    def _deriv_at(o, kind, P, var, bare):
        if kind == "Differential":
            return o.at(Point(**P)).component(var)
        if kind == "Derivative" and bare:
            return o.at(next(iter(P.values()), 1.5))
        return o.at(Point(**P))

    def _make_deriv(self, d):
        i, var, kind, early = d["i"], d["var"], d["kind"], bool(d.get("early"))
        out = lib.call(lambda: self._construct(kind, self.objs[i], var, early))
        if self.mode == "c09":
            b = lib.call(lambda: self._construct(kind, fresh(self.models[i]), var, early))
            if out.kind != b.kind and lib.OVF not in (out.kind, b.kind):
                raise Mismatch("history", f"make_deriv:{out.kind}/{b.kind}",
                               f"{self.describe(d)} on the used objects gave {out!r}, on a never-used copy {b!r}")
        if early:
            self.simplified_before = True
        if out.kind == lib.OBJ:
            self.derivs.append({"kind": kind, "i": i, "var": var, "early": early, "asexpr": False, "obj": out.value,
                                "repr": repr(out.value)})
        return out

    # -- C10 ------------------------------------------------------------------------------------
    def _point_mutation(self, d):
        coords = dec_point(d["point"])
        src = dict(coords)
        P = Point(**src)
        before = (repr(P), hash(P))
        src["mutated"] = 99
        for k in list(src):
            src[k] = 12345
        if (repr(P), hash(P)) != before or P != Point(**coords):
            raise Mismatch("point", "point-aliases-dict", f"Point(**d) changed after the caller mutated d: {P!r}")
        self.points.append((P, coords, before))
        return None

    def _probe(self, d):
        """C10: the pooled object must evaluate like a freshly built copy."""
        i = d["i"]
        P = dec_point(d["point"])
        if d.get("bare"):
            number = next(iter(P.values()), 1.5)
            a = lib.call(lambda: self.objs[i].at(number))
            b = lib.call(lambda: fresh(self.models[i]).at(number))
        else:
            a = lib.call(lambda: self.objs[i].at(Point(**P)))
            b = lib.call(lambda: fresh(self.models[i]).at(Point(**P)))
        if lib.OVF in (a.kind, b.kind):
            return None
        if a.key() != b.key() and not (a.kind == lib.EXC and b.kind == lib.EXC):
            raise Mismatch("probe", f"probe:{a.kind}/{b.kind}",
                           f"pool[{i}] = {M.text(self.models[i])[:200]} evaluates to {a!r} at {M.point_text(P)} but a "
                           f"freshly built copy of what it denoted at creation gives {b!r}")
        return a

    def check_snapshots(self):
        """C10 invariant: every pooled object still is, prints as, equals and hashes like a fresh
        copy of its creation-time model."""
        for i, (obj, (canon, rp, hs)) in enumerate(zip(self.objs, self.snap)):
            now = to_model(obj)
            if M.canon(now) != canon:
                raise Mismatch("snapshot", f"structure:{self.models[i][0]}",
                               f"pool[{i}] was {M.text(self.models[i])[:200]} and now is {M.text(now)[:200]}")
            if repr(obj) != rp or str(obj) != rp:
                raise Mismatch("snapshot", f"repr:{self.models[i][0]}", f"pool[{i}] printed {rp[:200]} and now prints {repr(obj)[:200]}")
            f = fresh(self.models[i])
            if not (obj == f) or not (f == obj) or hash(obj) != hs:
                raise Mismatch("snapshot", f"eq-hash:{self.models[i][0]}", f"pool[{i}] {rp[:200]} no longer equals / hashes like a fresh copy")
            if len(M.variables(self.models[i])) <= 1 and M.size(self.models[i]) <= 200:
                # ... and still accepts a bare number exactly like a fresh copy (the variable set is part of what it denotes)
                a = lib.call(lambda: obj.at(0.75))
                b = lib.call(lambda: f.at(0.75))
                if lib.OVF not in (a.kind, b.kind) and a.key() != b.key() and not (a.kind == lib.EXC and b.kind == lib.EXC):
                    raise Mismatch("snapshot", f"bare-number:{a.kind}/{b.kind}",
                                   f"pool[{i}] {rp[:200]} at the bare number 0.75 gives {a!r} but a freshly built copy gives {b!r}")
        for P, coords, before in self.points:
            if (repr(P), hash(P)) != before or P != Point(**coords):
                raise Mismatch("snapshot", "point", f"a Point changed: was {before[0]}, now {P!r}")
        for rec in self.derivs:
            if repr(rec["obj"]) != rec["repr"]:
                raise Mismatch("snapshot", f"deriv-repr:{rec['kind']}", f"{rec['repr'][:200]} now prints {repr(rec['obj'])[:200]}")
            f = self._construct(rec["kind"], fresh(self.models[rec["i"]]), rec["var"], False)
            if not (rec["obj"] == f) or hash(rec["obj"]) != hash(f):
                raise Mismatch("snapshot", f"deriv-eq:{rec['kind']}", f"{rec['repr'][:200]} no longer equals a freshly built copy")

    # -- text -----------------------------------------------------------------------------------
    def describe(self, d):
        op = d["op"]
        bits = [op]
        if "i" in d:
            bits.append(f"pool[{d['i']}]={M.text(self.models[d['i']])[:160]}")
        if "j" in d:
            rec = self.derivs[d["j"]]
            bits.append(f"{rec['repr'][:160]} (compute_early={rec['early']}, as_expression called={rec['asexpr']})")
        for k in ("var", "early", "route", "bare", "kind"):
            if k in d:
                bits.append(f"{k}={d[k]}")
        if "point" in d:
            bits.append("at " + M.point_text(dec_point(d["point"])))
        return " ".join(str(b) for b in bits)

    def history_text(self, limit=40):
        out = []
        for d in self.history[-limit:]:
            if d["op"] == "add":
                out.append("add " + M.text(self.decode(d["node"]))[:120] if False else "add " + str(d["node"])[:120])
            else:
                try:
                    out.append(self.describe(d)[:220])
                except Exception:  # noqa
                    out.append(str(d)[:200])
        return out


def replay_history(mode, history, check_every_step=True):
    """Re-executes a recorded history.  Raises Mismatch like the live run."""
    w = World(mode)
    for d in history:
        w.apply(d)
        if mode == "c10" and check_every_step:
            w.check_snapshots()
    return w
