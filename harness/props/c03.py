"""C03 - forward-mode partials equal the true partial derivative."""
from __future__ import annotations
from fractions import Fraction
from hypothesis import given, strategies as st
from harness import strategies as S
from harness import deriv as DV
from .common import *

ID = "C03"
RULE = ("Generated trees/DAGs x every variable (occurring or not; given as Variable or str) x generated points of "
        "the domain; routes Partial(e,v).at(p) and Derivative(e).at(Point|number), late objects only.  Oracle = "
        "independent mpmath forward-mode AD with running error bound (itself cross-checked against 50-digit central "
        "differences and a reverse sweep); exact Fraction dual numbers on the polynomial fragment under a proven bit "
        "budget.  Non-trivial = derivative decided AND (variable occurs >= 2 times, or under >= 3 nested non-linear "
        "nodes, or in a product with >= 3 non-constant factors, or under an odd root with negative argument, or under a "
        "base <= 1 exponential/logarithm); distinct by SHA-1 of (canonical model, point, variable).  Part 'sequence': one "
        "expression object with one late Partial / Derivative object queried at several points in a row (repeated points, "
        "another variable's Partial and plain evaluations of the same object in between), every answer checked against "
        "the oracle for its own point; non-trivial there = at least two answered queries.")
ASSUMPTIONS = [
    "mpmath 50-digit dual-number AD is the true derivative (self-checked against central differences on every run)",
    "value intermediates restricted to [1e-60,1e60], derivative intermediates to [1e-100,1e100] (else counted as range)",
    "tolerance 8 x first-order running error bound",
]

NONLINEAR = ("Reciprocal", "Cosine", "Sine", "NthPower", "NthRoot", "Exponential", "Logarithm", "Divide", "Power", "Multiply")


def features(m, var, ctx):
    occ = [0]
    feats = set()

    def go(x, nl):
        t = x[0]
        if t == "Variable":
            if x[1] == var:
                occ[0] += 1
                if nl >= 3:
                    feats.add("nested>=3")
            return
        if t == "Multiply":
            if sum(1 for c in x[1] if M.variables(c)) >= 3:
                feats.add("product>=3")
        if t == "NthRoot" and int(x[2]) % 2 == 1 and int(x[2]) >= 3:
            r = ctx.eval(x[1])
            if r.st == RE.DEFINED and r.v < 0 and var in M.variables(x[1]):
                feats.add("odd-root-negative")
        if t in M.PARAM_BASE and x[2] <= 1 and var in M.variables(x[1]):
            feats.add("base<=1")
        inc = 1 if (t in NONLINEAR and not (t in M.PARAM_N and int(x[2]) == 1)) else 0
        for c in M.children(x):
            go(c, nl + inc)
    if M.size(m) <= 400:
        go(m, 0)
    if occ[0] >= 2:
        feats.add("occurs>=2")
    return feats


def compare(stats, o, out, m, env, var, route, case, tag, prop=None, note=""):
    ID = prop or globals()['ID']
    where = f"d/d{var} of {M.text(m)[:300]} at {M.point_text(env)} via {route}{note}"
    if out.kind != lib.NUM:
        raise violation(ID, tag, f"no-number:{out.kind}:{route}", case,
                        f"{where}: true partial is {o.D} but the library gave {out!r}")
    val = out.value
    if var not in M.variables(m):
        if val != 0:
            raise violation(ID, tag, f"absent-nonzero:{route}", case, f"{where}: variable does not occur, expected 0, got {val!r}")
        stats.count("absent-variable")
        return
    if o.exact is not None:
        stats.count("exact-track")
        if Fraction(val) != o.exact:
            raise violation(ID, tag, f"inexact:{route}:{m[0]}", case,
                            f"{where}: polynomial fragment with exact intermediates, expected exactly {o.exact}, got {val!r}")
        return
    if ill_conditioned(o.ed, max(abs(o.D), o.a)):
        stats.count("ill-conditioned")
        return
    ok, ratio = within(val, o.D, o.ed)
    stats.ratio(min(ratio, 1e9), f"{where}")
    if not ok:
        raise violation(ID, tag, f"value:{route}:{m[0]}", case,
                        f"{where}: expected {o.D} (bound {o.ed:.3g}), got {val!r}; error/bound = {ratio:.3g}")


def check(stats, m, env, var, as_object=False, selfcheck=False, sub="forward"):
    m = safe(m)
    stats.case()
    o = DV.oracle(m, env, var, selfcheck=selfcheck)
    stats.count("oracle:" + o.st)
    if o.st != "ok":
        return
    if selfcheck:
        stats.count("oracle-self-checks")
    case = make_case(sub, m, env, var=var, as_object=as_object)
    routes = ["Partial.at/late"]
    vs = M.variables(m)
    if len(vs) <= 1 and (not vs or vs[0] == var):
        routes += ["Derivative.at/late", "Derivative.at(number)/late"]
    if not vs and var != "whatever":
        routes = ["Partial.at/late"]
    for route in routes:
        out = lib.call(lambda: DV.run_numeric(route, m, env, var, as_object))
        stats.count("route:" + route)
        compare(stats, o, out, m, env, var, route, case, sub)
    f = features(m, var, o.ctx)
    for x in f:
        stats.count("feature:" + x)
    if f:
        stats.nontrivial_case(M.digest(M.canon(m), sorted(env.items()), var),
                              describe(m, env, variable=var, true_partial=str(o.D)[:24], features=sorted(f)))


def make_general(stats):
    @given(st.data())
    def test(data):
        names = data.draw(S.name_lists())
        m = data.draw(S.expressions(names, depth=3))
        env = data.draw(S.points(names))
        var = data.draw(st.sampled_from(names + ["q"]))
        check(stats, m, env, var, as_object=data.draw(st.booleans()),
              selfcheck=data.draw(st.integers(0, 9)) == 0)
    return test


def make_single(stats):
    """One-variable expressions (Derivative route), smooth-heavy so that most points are in the domain."""
    @given(st.data())
    def test(data):
        m = data.draw(S.expressions(["x"], depth=4))
        env = data.draw(S.points(["x"], extra=False))
        check(stats, m, env, "x", as_object=data.draw(st.booleans()), selfcheck=data.draw(st.integers(0, 9)) == 0,
              sub="single")
    return test


def make_exact(stats):
    @given(st.data())
    def test(data):
        names = data.draw(S.name_lists(1, 3))
        m = data.draw(S.poly_trees(names, depth=4, tags=S.POLY_TAGS))
        env = data.draw(S.exact_points(names))
        var = data.draw(st.sampled_from(names))
        check(stats, m, env, var, as_object=data.draw(st.booleans()), sub="exact")
    return test


def check_sequence(stats, m, envs, steps, var, other, sub="sequence"):
    """ONE expression object and ONE late Partial (and Derivative) object on it, queried at several points in a row
    with other uses of the same expression in between (another variable's Partial, plain evaluation, a repeated
    point): every answer must be the true partial at the point of that query."""
    m = safe(m)
    stats.case()
    e = build(m)
    vs = M.variables(m)
    P = lib.Partial(e, var, compute_early=False)
    Q = lib.Partial(e, other, compute_early=False)
    D = lib.Derivative(e, compute_early=False) if len(vs) <= 1 and (not vs or vs[0] == var) else None
    trail = []
    answered = 0
    for k, (kind, i) in enumerate(steps):
        env = envs[i]
        pt = lib.Point(**env)
        if kind == "other":
            trail.append(f"Partial(e, {other}).at({M.point_text(env)}) -> {lib.call(lambda: Q.at(pt))!r}")
            continue
        if kind == "eval":
            trail.append(f"e.at({M.point_text(env)}) -> {lib.call(lambda: e.at(pt))!r}")
            continue
        if kind == "derivative" and D is None:
            kind = "partial"
        o = DV.oracle(m, env, var)
        obj, route = (P, "Partial.at/late") if kind == "partial" else (D, "Derivative.at/late")
        out = lib.call(lambda: obj.at(pt))
        trail.append(f"{route.split('.')[0]}(e, {var}).at({M.point_text(env)}) -> {out!r}")
        if o.st != "ok" or out.kind == lib.OVF:
            continue
        case = make_case(sub, m, None, var=var, other=other, points=[M.point_to_json(x) for x in envs],
                         steps=[list(x) for x in steps[:k + 1]])
        compare(stats, o, out, m, env, var, route, case, sub, note=(f" on one object after [{'; '.join(trail[:-1])[-600:]}]" if trail[:-1] else " (first query on the object)"))
        answered += 1
        stats.count("sequence-answers")
    if answered >= 2:
        stats.nontrivial_case(M.digest(M.canon(m), [sorted(x.items()) for x in envs], [list(x) for x in steps], var),
                              {"expr": M.text(m)[:300], "variable": var, "sequence": trail[:6]})


def make_sequence(stats):
    @given(st.data())
    def test(data):
        names = data.draw(S.name_lists(1, 3))
        if data.draw(st.booleans()):
            m = data.draw(S.expressions(names, depth=3))
            envs = [data.draw(S.points(names, extra=False)) for _ in range(data.draw(st.integers(2, 3)))]
        else:
            m = data.draw(S.poly_trees(names, depth=3, tags=S.POLY_TAGS))
            envs = [data.draw(S.exact_points(names)) for _ in range(data.draw(st.integers(2, 3)))]
        var = data.draw(st.sampled_from(names))
        other = data.draw(st.sampled_from(names + ["q"]))
        steps = data.draw(st.lists(st.tuples(st.sampled_from(["partial", "partial", "derivative", "other", "eval"]),
                                             st.integers(0, len(envs) - 1)), min_size=3, max_size=7))
        check_sequence(stats, m, envs, [tuple(x) for x in steps], var, other)
    return test


def parts(tier):
    n = 15000 if tier == "quick" else 300000
    return [hyp_part("general", make_general, int(n * 0.45)),
            hyp_part("single", make_single, int(n * 0.2)),
            hyp_part("exact", make_exact, int(n * 0.2)),
            hyp_part("sequence", make_sequence, int(n * 0.15))]


def replay(case):
    if case.get("sub") == "sequence":
        check_sequence(Stats(), case_model(case), [M.point_from_json(x) for x in case["points"]],
                       [tuple(x) for x in case["steps"]], case["var"], case["other"])
        return
    check(Stats(), case_model(case), case_point(case), case["var"], case.get("as_object", False),
          selfcheck=True, sub=case.get("sub", "forward"))


def self_test(tier, agg):
    bad = []
    tot = {}
    for g in agg.values():
        for k, c in g["counters"].items():
            tot[k] = tot.get(k, 0) + c
    for f in ("occurs>=2", "nested>=3", "product>=3", "odd-root-negative", "base<=1"):
        if tot.get("feature:" + f, 0) < 10:
            bad.append(f"C03: feature {f} seen fewer than 10 times")
    if tot.get("exact-track", 0) < 100:
        bad.append("C03: exact track starved")
    if tot.get("oracle-self-checks", 0) < 50:
        bad.append("C03: fewer than 50 oracle self-checks")
    return bad
