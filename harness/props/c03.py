"""C03 - forward-mode partials equal the true partial derivative."""
from __future__ import annotations
from fractions import Fraction
from hypothesis import given, strategies as st
from harness import strategies as S
from harness import deriv as DV
from .common import *

ID = "C03"
RULE = ("Generated trees/DAGs x every variable (occurring or not; given as Variable or str) x generated points of "
        "the domain; routes Partial(e,v).at(p) and Derivative(e).at(Point|number), late objects only.  Oracle = "
        "independent mpmath forward-mode AD with running error bound (itself cross-checked against 50-digit central "
        "differences and a reverse sweep); exact Fraction dual numbers on the polynomial fragment under a proven bit "
        "budget.  Non-trivial = derivative decided AND (variable occurs >= 2 times, or under >= 3 nested non-linear "
        "nodes, or in a product with >= 3 non-constant factors, or under an odd root with negative argument, or under a "
        "base <= 1 exponential/logarithm); distinct by SHA-1 of (canonical model, point, variable).")
ASSUMPTIONS = [
    "mpmath 50-digit dual-number AD is the true derivative (self-checked against central differences on every run)",
    "value intermediates restricted to [1e-60,1e60], derivative intermediates to [1e-100,1e100] (else counted as range)",
    "tolerance 8 x first-order running error bound",
]

NONLINEAR = ("Reciprocal", "Cosine", "Sine", "NthPower", "NthRoot", "Exponential", "Logarithm", "Divide", "Power", "Multiply")


def features(m, var, ctx):
    occ = [0]
    feats = set()

    def go(x, nl):
        t = x[0]
        if t == "Variable":
            if x[1] == var:
                occ[0] += 1
                if nl >= 3:
                    feats.add("nested>=3")
            return
        if t == "Multiply":
            if sum(1 for c in x[1] if M.variables(c)) >= 3:
                feats.add("product>=3")
        if t == "NthRoot" and int(x[2]) % 2 == 1 and int(x[2]) >= 3:
            r = ctx.eval(x[1])
            if r.st == RE.DEFINED and r.v < 0 and var in M.variables(x[1]):
                feats.add("odd-root-negative")
        if t in M.PARAM_BASE and x[2] <= 1 and var in M.variables(x[1]):
            feats.add("base<=1")
        inc = 1 if (t in NONLINEAR and not (t in M.PARAM_N and int(x[2]) == 1)) else 0
        for c in M.children(x):
            go(c, nl + inc)
    if M.size(m) <= 400:
        go(m, 0)
    if occ[0] >= 2:
        feats.add("occurs>=2")
    return feats


def compare(stats, o, out, m, env, var, route, case, tag, prop=None):
    ID = prop or globals()['ID']
    where = f"d/d{var} of {M.text(m)[:300]} at {M.point_text(env)} via {route}"
    if out.kind != lib.NUM:
        raise violation(ID, tag, f"no-number:{out.kind}:{route}", case,
                        f"{where}: true partial is {o.D} but the library gave {out!r}")
    val = out.value
    if var not in M.variables(m):
        if val != 0:
            raise violation(ID, tag, f"absent-nonzero:{route}", case, f"{where}: variable does not occur, expected 0, got {val!r}")
        stats.count("absent-variable")
        return
    if o.exact is not None:
        stats.count("exact-track")
        if Fraction(val) != o.exact:
            raise violation(ID, tag, f"inexact:{route}:{m[0]}", case,
                            f"{where}: polynomial fragment with exact intermediates, expected exactly {o.exact}, got {val!r}")
        return
    if ill_conditioned(o.ed, max(abs(o.D), o.a)):
        stats.count("ill-conditioned")
        return
    ok, ratio = within(val, o.D, o.ed)
    stats.ratio(min(ratio, 1e9), f"{where}")
    if not ok:
        raise violation(ID, tag, f"value:{route}:{m[0]}", case,
                        f"{where}: expected {o.D} (bound {o.ed:.3g}), got {val!r}; error/bound = {ratio:.3g}")


def check(stats, m, env, var, as_object=False, selfcheck=False, sub="forward"):
    m = safe(m)
    stats.case()
    o = DV.oracle(m, env, var, selfcheck=selfcheck)
    stats.count("oracle:" + o.st)
    if o.st != "ok":
        return
    if selfcheck:
        stats.count("oracle-self-checks")
    case = make_case(sub, m, env, var=var, as_object=as_object)
    routes = ["Partial.at/late"]
    vs = M.variables(m)
    if len(vs) <= 1 and (not vs or vs[0] == var):
        routes += ["Derivative.at/late", "Derivative.at(number)/late"]
    if not vs and var != "whatever":
        routes = ["Partial.at/late"]
    for route in routes:
        out = lib.call(lambda: DV.run_numeric(route, m, env, var, as_object))
        stats.count("route:" + route)
        compare(stats, o, out, m, env, var, route, case, sub)
    f = features(m, var, o.ctx)
    for x in f:
        stats.count("feature:" + x)
    if f:
        stats.nontrivial_case(M.digest(M.canon(m), sorted(env.items()), var),
                              describe(m, env, variable=var, true_partial=str(o.D)[:24], features=sorted(f)))


def make_general(stats):
    @given(st.data())
    def test(data):
        names = data.draw(S.name_lists())
        m = data.draw(S.expressions(names, depth=3))
        env = data.draw(S.points(names))
        var = data.draw(st.sampled_from(names + ["q"]))
        check(stats, m, env, var, as_object=data.draw(st.booleans()),
              selfcheck=data.draw(st.integers(0, 9)) == 0)
    return test


def make_single(stats):
    """One-variable expressions (Derivative route), smooth-heavy so that most points are in the domain."""
    @given(st.data())
    def test(data):
        m = data.draw(S.expressions(["x"], depth=4))
        env = data.draw(S.points(["x"], extra=False))
        check(stats, m, env, "x", as_object=data.draw(st.booleans()), selfcheck=data.draw(st.integers(0, 9)) == 0,
              sub="single")
    return test


def make_exact(stats):
    @given(st.data())
    def test(data):
        names = data.draw(S.name_lists(1, 3))
        m = data.draw(S.poly_trees(names, depth=4, tags=S.POLY_TAGS))
        env = data.draw(S.exact_points(names))
        var = data.draw(st.sampled_from(names))
        check(stats, m, env, var, as_object=data.draw(st.booleans()), sub="exact")
    return test


def parts(tier):
    n = 15000 if tier == "quick" else 300000
    return [hyp_part("general", make_general, int(n * 0.5)),
            hyp_part("single", make_single, int(n * 0.25)),
            hyp_part("exact", make_exact, int(n * 0.25))]


def replay(case):
    check(Stats(), case_model(case), case_point(case), case["var"], case.get("as_object", False),
          selfcheck=True, sub=case.get("sub", "forward"))


def self_test(tier, agg):
    bad = []
    tot = {}
    for g in agg.values():
        for k, c in g["counters"].items():
            tot[k] = tot.get(k, 0) + c
    for f in ("occurs>=2", "nested>=3", "product>=3", "odd-root-negative", "base<=1"):
        if tot.get("feature:" + f, 0) < 10:
            bad.append(f"C03: feature {f} seen fewer than 10 times")
    if tot.get("exact-track", 0) < 100:
        bad.append("C03: exact track starved")
    if tot.get("oracle-self-checks", 0) < 50:
        bad.append("C03: fewer than 50 oracle self-checks")
    return bad
