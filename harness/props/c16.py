"""C16 - ill-formed expressions are rejected at construction."""
from __future__ import annotations
import math
from hypothesis import given, strategies as st
import smoothmath
import smoothmath.expression as sx
from harness import strategies as S
from .common import *

ID = "C16"
RULE = ("For every constructor, generated arguments from well inside to well outside the documented range: n over ints "
        "of any sign, integral and non-integral floats, huge values, nan/inf, strings, None; bases over reals of any "
        "sign, 0, 1, 1.0, values next to 0 and 1, strings, None; variable names over arbitrary text (empty, whitespace, "
        "punctuation, trailing newline, combining marks, every Unicode category, non-str objects); operands = foreign "
        "objects in every position of every arity.  Oracle = independently written spec predicate (name legal <=> str, "
        "non-empty, every char isalnum() or '_' - verified identical to the regex class \\w over all code points; n legal "
        "<=> int or integral finite float, >= 1; exp base legal <=> real > 0; log base legal <=> real > 0 and != 1; "
        "operands legal <=> all Expressions): constructor raises <=> predicate false; on success .n == int(n) with "
        "type int, .base == base, .name == name, .value == value and the operands are the objects given.  Non-trivial = "
        "argument within one step of a legality boundary (n in {0,1,-1, 0.5, 1.0, 1.5}, base in {0, 1, next-float "
        "neighbours}, names with exactly one illegal character or a legal non-ASCII character, exactly one foreign "
        "operand); distinct by SHA-1 of (constructor, arguments).")
ASSUMPTIONS = ["'rejects with an exception' = any exception raised by the constructor call",
               "bool arguments for n/base and non-finite bases are outside the documented ranges and outside the "
               "quantifier ('reals'); they are not generated"]

UNARY_CTORS = ["Negation", "Reciprocal", "Cosine", "Sine"]
BINARY_CTORS = ["Minus", "Divide", "Power"]
NARY_CTORS = ["Add", "Multiply"]


def name_legal(name):
    return isinstance(name, str) and len(name) > 0 and all(c.isalnum() or c == "_" for c in name)


def n_legal(n):
    if isinstance(n, bool):
        return None
    if isinstance(n, int):
        return n >= 1
    if isinstance(n, float):
        return math.isfinite(n) and n.is_integer() and n >= 1
    return False


def base_legal(b, log):
    if isinstance(b, bool):
        return None
    if isinstance(b, (int, float)):
        if isinstance(b, float) and not math.isfinite(b):
            return None
        return b > 0 and not (log and b == 1)
    return False


def returned_something(out):
    return out.kind in (lib.EXPR, lib.NUM, lib.OBJ, lib.WEIRD)


def judge(stats, label, legal, out, case, detail, verify=None, boundary=False):
    """legal: True / False / None (unspecified)."""
    stats.case()
    if legal is None:
        stats.count("unspecified")
        return
    if legal:
        if out.kind != lib.EXPR:
            raise violation(ID, "accept", f"legal-rejected:{label}", case, f"{detail} is well-formed but the constructor gave {out!r}")
        if verify is not None:
            msg = verify(out.value)
            if msg:
                raise violation(ID, "report-back", f"report-back:{label}", case, f"{detail}: {msg}")
        stats.count("accepted:" + label)
    else:
        if returned_something(out):
            raise violation(ID, "reject", f"illegal-accepted:{label}", case, f"{detail} is ill-formed but the constructor returned {out!r}")
        stats.count("rejected:" + label)
    if boundary:
        stats.nontrivial_case(M.digest(label, detail), {"call": detail[:300], "legal": bool(legal)})


# -- n ---------------------------------------------------------------------------------------------

def ns_any():
    return st.one_of(
        st.integers(-10, 50), st.integers(-10 ** 20, 10 ** 20),
        st.integers(-10, 50).map(float),
        st.floats(min_value=-10, max_value=50, allow_nan=False),
        st.sampled_from([0, 1, -1, 2, 0.0, -0.0, 1.0, -1.0, 0.5, 1.5, 0.9999999999999999, 1.0000000000000002, 2.0, 1e16, 1e300,
                         -1e300, 2 ** 53, float(2 ** 53), math.nan, math.inf, -math.inf, 5e-324, "2", "n", None, (2,), [2], 2j]),
    )


def check_n(stats, ctor, n):
    inner = sx.Variable("x")
    out = lib.call(lambda: getattr(sx, ctor)(inner, n) if not isinstance(n, tuple) else getattr(sx, ctor)(inner, n=n))
    out2 = lib.call(lambda: getattr(sx, ctor)(inner, n=n))
    legal = n_legal(n)
    case = {"sub": "n", "ctor": ctor, "arg": repr(n)}
    near = isinstance(n, (int, float)) and not isinstance(n, bool) and n == n and abs(n) <= 2

    def verify(e):
        if type(e.n) is not int or e.n != int(n):
            return f".n is {e.n!r} ({type(e.n).__name__}), expected the int {int(n)}"
        if e._inner is not inner:
            return "the operand is not the object given"
        return None
    for o in (out, out2):
        judge(stats, f"{ctor}.n", legal, o, case, f"{ctor}(Variable('x'), n={n!r})", verify, boundary=near)


# -- base ------------------------------------------------------------------------------------------

def bases_any():
    return st.one_of(
        st.floats(min_value=-10, max_value=10, allow_nan=False),
        st.integers(-5, 20),
        st.sampled_from([0, 0.0, -0.0, 1, 1.0, -1, math.e, 2, 0.5, 5e-324, -5e-324, 1e-300, 1e300, 0.9999999999999999,
                         1.0000000000000002, -1e-300, "2", None, [2], 2j, (2,)]),
    )


def check_base(stats, ctor, b):
    inner = sx.Variable("x")
    log = ctor == "Logarithm"
    out = lib.call(lambda: getattr(sx, ctor)(inner, base=b))
    legal = base_legal(b, log)
    case = {"sub": "base", "ctor": ctor, "arg": repr(b)}
    near = isinstance(b, (int, float)) and not isinstance(b, bool) and (abs(b) <= 1e-200 or abs(b - 1) <= 1e-9 or b == 0)

    def verify(e):
        if not (e.base == b) or type(e.base) is not type(b):
            return f".base is {e.base!r}, expected {b!r}"
        if e._inner is not inner:
            return "the operand is not the object given"
        return None
    judge(stats, f"{ctor}.base", legal, out, case, f"{ctor}(Variable('x'), base={b!r})", verify, boundary=near)


def check_default_base(stats, ctor):
    out = lib.call(lambda: getattr(sx, ctor)(sx.Variable("x")))
    judge(stats, f"{ctor}.default-base", True, out, {"sub": "default-base", "ctor": ctor}, f"{ctor}(Variable('x'))",
          lambda e: None if e.base == math.e else f".base is {e.base!r}, expected e")


# -- names -----------------------------------------------------------------------------------------

def names_any():
    anychar = st.characters()
    word = st.characters(categories=["Lu", "Ll", "Lt", "Lm", "Lo", "Nd", "Nl", "No"], include_characters="_")
    return st.one_of(
        S.legal_names(),
        st.text(alphabet=word, min_size=1, max_size=6),
        st.text(alphabet=anychar, min_size=0, max_size=5),
        st.builds(lambda a, c, b: a + c + b, st.text(alphabet=word, max_size=3), anychar, st.text(alphabet=word, max_size=3)),
        st.sampled_from(["", " ", "x ", " x", "x\n", "\nx", "x\r", "x\t", "x y", "x-y", "x.y", "x'", "x\"", "x\\", "x́", "́",
                         "x​", "x ", "½", "①", "x²", "_", "__init__", "9", "x" * 200, "\x00", "x\x00", "x ",
                         "é", "\U0001d465", "퟿", "$x", "x$", "x+", "{x}", "x,y", "x=1"]),
        st.sampled_from([None, 1, 1.5, b"x", ("x",), ["x"], True]),
    )


def check_name(stats, name):
    out = lib.call(lambda: sx.Variable(name))
    legal = name_legal(name)
    case = {"sub": "name", "arg": repr(name)}
    boundary = False
    if isinstance(name, str):
        illegal = sum(1 for c in name if not (c.isalnum() or c == "_"))
        boundary = illegal == 1 or name == "" or (legal and any(ord(c) > 127 for c in name))

    def verify(e):
        if e.name != name or type(e.name) is not str:
            return f".name is {e.name!r}, expected {name!r}"
        return None
    judge(stats, "Variable.name", legal, out, case, f"Variable({name!r})", verify, boundary=boundary)
    if legal:
        # every accepted name can be used as a coordinate name (also C14)
        v = lib.call(lambda: sx.Variable(name).at(lib.Point(**{name: 2.5})))
        if v.kind != lib.NUM or v.value != 2.5:
            raise violation(ID, "name-usable", "name-unusable", case, f"Variable({name!r}).at(Point(**{{name: 2.5}})) gave {v!r}")


# -- operands --------------------------------------------------------------------------------------

FOREIGN = [None, 0, 1, 2.5, "x", "Variable(\"x\")", [], (), {}, object(), True, lib.Point(x=1), sx.Variable, 1j]


def check_operands(stats, ctor, args, kwargs=None):
    kwargs = kwargs or {}
    legal = all(isinstance(a, smoothmath.Expression) for a in args)
    out = lib.call(lambda: getattr(sx, ctor)(*args, **kwargs))
    case = {"sub": "operands", "ctor": ctor, "args": [repr(a)[:60] for a in args]}
    nforeign = sum(1 for a in args if not isinstance(a, smoothmath.Expression))

    def verify(e):
        kids = e._inners if ctor in NARY_CTORS else [e._left, e._right] if ctor in BINARY_CTORS else [e._inner]
        if len(kids) != len(args) or any(k is not a for k, a in zip(kids, args)):
            return "the built node does not hold exactly the operand objects given, in order"
        return None
    judge(stats, f"{ctor}.operands", legal, out, case, f"{ctor}({', '.join(repr(a)[:40] for a in args)})", verify,
          boundary=(nforeign == 1))


def check_constant(stats, v):
    out = lib.call(lambda: sx.Constant(v))
    judge(stats, "Constant.value", True, out, {"sub": "constant", "arg": repr(v)}, f"Constant({v!r})",
          lambda e: None if (e.value == v and type(e.value) is type(v)) else f".value is {e.value!r}, expected {v!r}")


def make_params(stats):
    @given(st.data())
    def test(data):
        k = data.draw(st.integers(0, 3))
        if k == 0:
            check_n(stats, data.draw(st.sampled_from(["NthPower", "NthRoot"])), data.draw(ns_any()))
        elif k == 1:
            check_base(stats, data.draw(st.sampled_from(["Exponential", "Logarithm"])), data.draw(bases_any()))
        elif k == 2:
            check_default_base(stats, data.draw(st.sampled_from(["Exponential", "Logarithm"])))
            check_constant(stats, data.draw(S.constants_values()))
        else:
            check_n(stats, data.draw(st.sampled_from(["NthPower", "NthRoot"])), data.draw(st.sampled_from([0, 1, -1, 0.5, 1.0, 1.5, 2, 0.0])))
    return test


def make_names(stats):
    @given(st.data())
    def test(data):
        check_name(stats, data.draw(names_any()))
    return test


def make_operands(stats):
    @given(st.data())
    def test(data):
        good = st.builds(lambda m: fresh(m), S.trees(["x", "y"], depth=1))
        item = st.integers(0, 3).flatmap(lambda k: st.sampled_from(FOREIGN) if k == 0 else good)
        ctor = data.draw(st.sampled_from(UNARY_CTORS + BINARY_CTORS + NARY_CTORS + ["NthPower", "NthRoot", "Exponential", "Logarithm"]))
        if ctor in UNARY_CTORS:
            check_operands(stats, ctor, [data.draw(item)])
        elif ctor in BINARY_CTORS:
            check_operands(stats, ctor, [data.draw(item), data.draw(item)])
        elif ctor in NARY_CTORS:
            check_operands(stats, ctor, data.draw(st.lists(item, min_size=0, max_size=5)))
        elif ctor in ("NthPower", "NthRoot"):
            check_operands(stats, ctor, [data.draw(item)], {"n": 2})
        else:
            check_operands(stats, ctor, [data.draw(item)], {"base": 2})
    return test


def parts(tier):
    n = 30000 if tier == "quick" else 500000
    return [hyp_part("parameters", make_params, int(n * 0.4)), hyp_part("names", make_names, int(n * 0.35)),
            hyp_part("operands", make_operands, int(n * 0.25))]


def replay(case):
    sub = case.get("sub")
    env = {"nan": math.nan, "inf": math.inf}
    if sub == "n":
        check_n(Stats(), case["ctor"], eval(case["arg"], env))  # noqa: our own repr
    elif sub == "base":
        check_base(Stats(), case["ctor"], eval(case["arg"], env))  # noqa
    elif sub == "name":
        check_name(Stats(), eval(case["arg"], env))  # noqa
    elif sub == "operands":
        # foreign operands are re-created from the fixed FOREIGN list by repr
        args = []
        for r in case["args"]:
            hit = [f for f in FOREIGN if repr(f)[:60] == r]
            args.append(hit[0] if hit else sx.Variable("x"))
        kw = {"n": 2} if case["ctor"] in ("NthPower", "NthRoot") else {"base": 2} if case["ctor"] in ("Exponential", "Logarithm") else {}
        check_operands(Stats(), case["ctor"], args, kw)


def self_test(tier, agg):
    tot = {}
    for g in agg.values():
        for k, c in g["counters"].items():
            tot[k] = tot.get(k, 0) + c
    bad = []
    for label in ("NthPower.n", "NthRoot.n", "Exponential.base", "Logarithm.base", "Variable.name"):
        for side in ("accepted", "rejected"):
            if tot.get(f"{side}:{label}", 0) < 50:
                bad.append(f"C16: {side}:{label} seen fewer than 50 times")
    for c in UNARY_CTORS + BINARY_CTORS + NARY_CTORS:
        if tot.get(f"rejected:{c}.operands", 0) < 10 or tot.get(f"accepted:{c}.operands", 0) < 10:
            bad.append(f"C16: operands of {c} lack accepted or rejected cases")
    return bad
