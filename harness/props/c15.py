"""C15 - operator syntax builds exactly the named constructors."""
from __future__ import annotations
import math
from fractions import Fraction
from decimal import Decimal
from hypothesis import given, strategies as st
import smoothmath.expression as sx
from harness import strategies as S
from .common import *

ID = "C15"
RULE = ("Generated pairs of expressions a, b (trees/DAGs incl. operands that are themselves sums, products, negations, "
        "constants) x exponents (ints >= 1, integral floats, non-integral floats, zero, negatives, nan, inf, huge) x "
        "foreign operands (numbers, None, str, list, tuple, bool, reflected forms like 1 + a).  Oracle: structure of "
        "-a, a+b, a-b, a*b, a/b, a**b, a**k equals ('Negation', a), ('Add', (a, b)), ('Minus', a, b), ('Multiply', "
        "(a, b)), ('Divide', a, b), ('Power', a, b), ('NthPower', a, int(k)) exactly (operand OBJECTS are the operands, "
        "nothing flattened / folded / reordered) and == the constructor call; foreign operands and non-integral / "
        "non-positive / non-finite exponents raise and return nothing.  Non-trivial = an operand that is itself the same "
        "operator's constructor, or an integral-float exponent, or a rejected operand; distinct by SHA-1 of the case.")
ASSUMPTIONS = ["'rejected with an exception' means any exception type"]

BINOPS = [("+", "Add", lambda a, b: a + b), ("-", "Minus", lambda a, b: a - b), ("*", "Multiply", lambda a, b: a * b),
          ("/", "Divide", lambda a, b: a / b), ("**", "Power", lambda a, b: a ** b)]


def expect_model(op, ma, mb):
    if op in ("Add", "Multiply"):
        return (op, (ma, mb))
    return (op, ma, mb)


def check_ops(stats, ma, mb):
    stats.case()
    case = make_case("operators", ma, None, b=M.to_json(mb))
    a, b = fresh(ma), fresh(mb)
    nt = False
    for sym, tag, f in BINOPS:
        out = lib.call(lambda: f(a, b))
        want = expect_model(tag, ma, mb)
        if out.kind != lib.EXPR:
            raise violation(ID, "operators", f"op-fails:{sym}", case, f"a {sym} b gave {out!r} for a = {M.text(ma)[:150]}, b = {M.text(mb)[:150]}")
        got = to_model(out.value)
        if M.canon(got) != M.canon(want) or type(out.value).__name__ != tag:
            raise violation(ID, "operators", f"op-structure:{sym}:{ma[0]}:{mb[0]}", case,
                            f"a {sym} b built {M.text(got)[:250]}, expected {M.text(want)[:250]}")
        kids = (out.value._inners if tag in M.NARY else [out.value._left, out.value._right])
        if kids[0] is not a or kids[1] is not b:
            raise violation(ID, "operators", f"op-copies-operands:{sym}", case, f"a {sym} b does not hold the operand objects themselves")
        ctor = getattr(sx, tag)(fresh(ma), fresh(mb))
        if not (out.value == ctor) or hash(out.value) != hash(ctor):
            raise violation(ID, "operators", f"op-neq-ctor:{sym}", case, f"a {sym} b != {tag}(a, b) for a = {M.text(ma)[:150]}, b = {M.text(mb)[:150]}")
        if ma[0] == tag or mb[0] == tag:
            nt = True
    # the very same object on both sides: still exactly the constructor over (a, a)
    for sym, tag, f in BINOPS:
        out = lib.call(lambda: f(a, a))
        want = expect_model(tag, ma, ma)
        if out.kind != lib.EXPR or type(out.value).__name__ != tag or M.canon(to_model(out.value)) != M.canon(want):
            raise violation(ID, "operators", f"op-same-object:{sym}", case,
                            f"a {sym} a (one object on both sides) gave {out!r}, expected {tag}(a, a) for a = {M.text(ma)[:200]}")
        kids = (out.value._inners if tag in M.NARY else [out.value._left, out.value._right])
        if kids[0] is not a or kids[1] is not a:
            raise violation(ID, "operators", f"op-same-object-copies:{sym}", case, f"a {sym} a does not hold the operand object itself")
    stats.count("same-object-operator-sets")
    neg = lib.call(lambda: -a)
    if neg.kind != lib.EXPR or M.canon(to_model(neg.value)) != M.canon(("Negation", ma)) or neg.value._inner is not a \
            or not (neg.value == sx.Negation(fresh(ma))):
        raise violation(ID, "operators", f"neg:{ma[0]}", case, f"-a gave {neg!r} for a = {M.text(ma)[:200]}")
    if ma[0] in ("Negation", "Constant"):
        nt = True
    stats.count("binary-operator-sets")
    if nt:
        stats.nontrivial_case(M.digest(M.canon(ma), M.canon(mb)), {"a": M.text(ma)[:200], "b": M.text(mb)[:200]})


def exponent_legal(k):
    if isinstance(k, bool):
        return None          # not specified: neither asserted
    if isinstance(k, int):
        return k >= 1
    if isinstance(k, float):
        return math.isfinite(k) and k.is_integer() and k >= 1
    return False


def check_exponent(stats, ma, k):
    stats.case()
    case = make_case("exponent", ma, None, exponent=repr(k))
    a = fresh(ma)
    legal = exponent_legal(k)
    if legal is None:
        return
    out = lib.call(lambda: a ** k)
    if legal:
        want = ("NthPower", ma, int(k))
        if out.kind != lib.EXPR:
            raise violation(ID, "exponent", f"legal-exponent-rejected:{type(k).__name__}", case, f"a ** {k!r} gave {out!r}")
        got = to_model(out.value)
        if M.canon(got) != M.canon(want) or type(out.value.n) is not int or out.value._inner is not a \
                or not (out.value == sx.NthPower(fresh(ma), int(k))):
            raise violation(ID, "exponent", f"exponent-structure:{type(k).__name__}", case,
                            f"a ** {k!r} built {M.text(got)[:200]} (n of type {type(out.value.n).__name__}), expected NthPower(a, {int(k)})")
        stats.count("exponent:legal:" + type(k).__name__)
        if isinstance(k, float):
            stats.nontrivial_case(M.digest(M.canon(ma), repr(k)), {"a": M.text(ma)[:200], "exponent": repr(k)})
    else:
        if out.kind in (lib.EXPR, lib.NUM, lib.OBJ, lib.WEIRD):
            raise violation(ID, "exponent", f"illegal-exponent-accepted:{type(k).__name__}", case,
                            f"a ** {k!r} returned {out!r} instead of raising")
        stats.count("exponent:rejected:" + type(k).__name__)
        stats.nontrivial_case(M.digest(M.canon(ma), repr(k)), {"a": M.text(ma)[:200], "exponent": repr(k), "rejected": True})


FOREIGN = [0, 1, 2, -1, 2.5, 1.0, None, "x", "1", [], [1], (), (1, 2), {}, True, False, 1j, Fraction(1, 2), Decimal(2), object, len]


def check_foreign(stats, ma, fobj):
    stats.case()
    case = make_case("foreign", ma, None, foreign=repr(fobj))
    a = fresh(ma)
    forms = [("a + f", lambda: a + fobj), ("a - f", lambda: a - fobj), ("a * f", lambda: a * fobj), ("a / f", lambda: a / fobj),
             ("f + a", lambda: fobj + a), ("f - a", lambda: fobj - a), ("f * a", lambda: fobj * a), ("f / a", lambda: fobj / a),
             ("f ** a", lambda: fobj ** a)]
    if not isinstance(fobj, (int, float)):
        # numeric exponents are check_exponent's subject; bool is an int subclass and left unspecified
        forms.append(("a ** f", lambda: a ** fobj))
    for name, f in forms:
        out = lib.call(f)
        if out.kind in (lib.EXPR, lib.NUM, lib.OBJ, lib.WEIRD):
            raise violation(ID, "foreign", f"foreign-accepted:{name}:{type(fobj).__name__}", case,
                            f"{name} with f = {fobj!r} returned {out!r} instead of raising")
    stats.count("foreign:" + type(fobj).__name__)
    stats.nontrivial_case(M.digest(M.canon(ma), repr(fobj)), {"a": M.text(ma)[:200], "foreign": repr(fobj)})


def make_ops(stats):
    @given(st.data())
    def test(data):
        names = data.draw(S.name_lists(1, 3))
        ma = data.draw(S.expressions(names, depth=2))
        mb = data.draw(S.expressions(names, depth=2))
        if data.draw(st.integers(0, 2)) == 0:
            t = data.draw(st.sampled_from(["Add", "Multiply", "Minus", "Divide", "Power", "Negation", "NthPower"]))
            w = (t, (ma, mb)) if t in M.NARY else (t, ma, mb) if t in M.BINARY else (t, ma) if t == "Negation" else (t, ma, 2)
            if data.draw(st.booleans()):
                ma = w
            else:
                mb = w
        check_ops(stats, ma, mb)
    return test


def exponents():
    return st.one_of(
        st.integers(-5, 40), st.integers(1, 10 ** 6), st.integers(2 ** 52, 2 ** 70), st.integers(1, 10 ** 40),
        st.sampled_from([2 ** 53 + 1, 2 ** 63 - 1, 2 ** 63, 10 ** 23, 10 ** 400, -(10 ** 30), 2 ** 1024]),
        st.integers(-5, 40).map(float),
        st.floats(min_value=-10, max_value=40, allow_nan=False),
        st.sampled_from([0, 0.0, -0.0, 1, 1.0, 2.0, 2.5, 0.5, 1.0000000000000002, 0.9999999999999999, math.nan, math.inf,
                         -math.inf, 1e16, 1e300, -1, -1.0, -2, 3.0, 2 ** 53, float(2 ** 53), 1e-300]),
    )


def make_exponents(stats):
    @given(st.data())
    def test(data):
        names = data.draw(S.name_lists(1, 2))
        ma = data.draw(S.trees(names, depth=2))
        check_exponent(stats, ma, data.draw(exponents()))
    return test


def make_foreign(stats):
    @given(st.data())
    def test(data):
        names = data.draw(S.name_lists(1, 2))
        ma = data.draw(S.trees(names, depth=2))
        check_foreign(stats, ma, data.draw(st.sampled_from(FOREIGN)))
    return test


def parts(tier):
    n = 20000 if tier == "quick" else 300000
    return [hyp_part("operators", make_ops, int(n * 0.5)), hyp_part("exponents", make_exponents, int(n * 0.3)),
            hyp_part("foreign", make_foreign, int(n * 0.2))]


def replay(case):
    sub = case.get("sub")
    ma = case_model(case)
    if sub == "exponent":
        k = eval(case["exponent"], {"nan": math.nan, "inf": math.inf})  # noqa: our own repr of a number
        check_exponent(Stats(), ma, k)
    elif sub == "foreign":
        for f in FOREIGN:
            if repr(f) == case["foreign"]:
                check_foreign(Stats(), ma, f)
    else:
        check_ops(Stats(), ma, M.from_json(case["b"]))


def self_test(tier, agg):
    c = agg.get("exponents", {}).get("counters", {})
    bad = []
    for k in ("exponent:legal:int", "exponent:legal:float", "exponent:rejected:int", "exponent:rejected:float"):
        if c.get(k, 0) < 50:
            bad.append(f"C15: class {k} seen fewer than 50 times")
    return bad
