"""Shared helpers for property modules."""
from __future__ import annotations
import math
from fractions import Fraction
from mpmath import mpf
from harness import model as M
from harness.runner import Violation, Stats, hyp_part, run_part, machine_part, fuzz_part
from harness.build import build, fresh, to_model, HarnessError
from harness import lib
from harness import refeval as RE
from harness import refad as RA

from harness.sanitize import sanitize as safe      # every check passes its model through this first (DESIGN.md 5.3)

TOL = 8.0
TINY = 1e-300
ILL = 1e-6


def make_case(sub, m=None, env=None, **extra):
    c = {"sub": sub}
    if m is not None:
        c["model"] = M.to_json(m)
    if env is not None:
        c["point"] = M.point_to_json(env)
    for k, v in extra.items():
        c[k] = v
    return c


def case_model(case, key="model"):
    return M.from_json(case[key])


def case_point(case, key="point"):
    return M.point_from_json(case[key])


def violation(prop, sub, sig, case, message):
    return Violation(prop, sub, sig, case, message)


def within(value, ref_v, eps, factor=TOL):
    """(ok, ratio) for |value - ref_v| <= factor*eps + TINY."""
    err = abs(mpf(value) - ref_v)
    bound = eps if eps > 0 else 0.0
    if err == 0:
        return True, 0.0
    if bound == 0.0:
        return (err <= TINY), math.inf
    ratio = float(err / bound)
    return (ratio <= factor), ratio


def ill_conditioned(eps, scale):
    return eps > ILL * max(1.0, float(abs(scale)))


def nontrivial_shape(m):
    """The C01-style 'not a two-level textbook case' rule."""
    if M.depth(m) >= 4:
        return True
    if M.shared_nodes(m) > 0:
        return True
    for x in M.subterms(m):
        t = x[0]
        if t in M.NARY and len(x[1]) not in (2, 3):
            return True
        if t in M.PARAM_N and int(x[2]) >= 4:
            return True
        if t in M.PARAM_BASE and not (x[2] == math.e or x[2] == 2):
            return True
    return False


def describe(m, env=None, **kw):
    d = {"expr": M.text(m)[:600]}
    if env is not None:
        d["point"] = M.point_text(env)
    d.update(kw)
    return d
