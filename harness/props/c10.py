"""C10 - operations never change their operands (stateful)."""
from __future__ import annotations
from hypothesis import strategies as st
from hypothesis.stateful import rule, precondition
from harness import history as H
from .common import *
from . import c09

ID = "C10"
RULE = ("Same RuleBasedStateMachine histories as C09 (pool of expressions sharing sub-expression objects, persistent "
        "derivative objects, expressions returned by as_expression()/_normalize() re-entering the pool, failing calls) "
        "plus Point(**d)-then-mutate-d and probe evaluations; and, exhaustively over the small-scope skeletons that C11 enumerates, "
        "every sub-expression object is snapshot, the simplifying/differentiating operations are run twice, and no pre-existing or "
        "previously returned object may have changed.  Every pooled object gets a snapshot at creation (canonical "
        "model, repr, hash of a separately built fresh copy).  Invariant after EVERY operation, for EVERY pooled object: "
        "its structure (walked through _inner/_left/_right/_inners/.n/.base/.name/.value) equals the snapshot, repr and "
        "str equal the snapshot, it == a fresh copy (both directions) with equal hash; points and derivative objects "
        "likewise; probe rule: the live object evaluates bit-identically to a fresh copy of its creation-time model.  "
        "Non-trivial = a history with >= 1 simplification or differentiation over shared nodes followed by further "
        "operations; distinct by SHA-1 of the history.")
ASSUMPTIONS = [
    "the structural walk uses the private child attributes the repository's own tests use",
    "probe evaluation of a live object is compared with a fresh copy of the model recorded when the object entered the pool",
]


class C10Base(c09.Machine):
    mode = "c10"
    prop = ID

    @rule(p=c09.points_st())
    def point_mutation(self, p):
        self._apply({"op": "point_mutation", "point": p})

    @rule(data=st.data(), p=c09.any_point(), bare=st.booleans())
    def probe(self, data, p, bare):
        self._apply({"op": "probe", "i": self._idx(data), "point": p, "bare": bare})

    def teardown(self):
        st_ = self.stats
        if st_ is None:
            return
        st_.case()
        st_.count("operations", self.w.ops)
        st_.count("snapshot-checks", self.w.ops * (len(self.w.models) + len(self.w.derivs) + len(self.w.points)))
        for f in self.w.features:
            st_.count("feature:" + f)
        for d in self.w.history:
            st_.count("op:" + d["op"])
        if "shared" in self.w.features and "after-simplification" in self.w.features and self.w.ops >= 3:
            st_.nontrivial_case(M.digest(repr(self.w.history)),
                                {"history": self.w.history_text(14), "pool": len(self.w.models), "features": sorted(self.w.features)})


def immutability(stats, m, sub="skeleton"):
    """Small-scope exhaustive companion of the state machine: build m, snapshot EVERY sub-expression object, run the
    simplifying / differentiating operations (each twice: the second pass meets memo flags set by the first), and
    verify that no pre-existing object - nor any expression returned earlier - changed."""
    from .c14 import walk_objects
    m = safe(m)
    stats.case()
    e = build(m)
    pairs = []
    walk_objects(e, m, pairs, set())
    snap = [(o, M.canon(sm), repr(o)) for o, sm in pairs]
    returned = []
    P = lib.Point(x=2.0, y=3.0)      # floats: an int coordinate under a merged power tower would make CPython build a gigantic exact integer

    def keep(out):
        if out.kind == lib.EXPR:
            returned.append((out.value, M.canon(to_model(out.value)), repr(out.value)))
    case = make_case(sub, m, None)
    for rnd in range(2):
        for var in ("x", "y"):
            keep(lib.call(lambda: lib.Partial(e, var).as_expression()))
            lib.call(lambda: lib.Partial(e, var, compute_early=True).at(P))
            keep(lib.call(lambda: lib.Differential(e, compute_early=True).component(var).as_expression()))
        keep(lib.call(lambda: e._normalize()))
        lib.call(lambda: e.at(P))
        lib.call(lambda: lib.LocatedDifferential(e, P))
        for o, canon0, repr0 in snap + returned:
            now = to_model(o)
            if M.canon(now) != canon0 or repr(o) != repr0:
                raise violation(ID, sub, f"operand-changed:{now[0]}", case,
                                f"inside {M.text(m)[:200]}: the object that was {repr0[:160]} is now {repr(o)[:160]} after "
                                f"as_expression / early derivatives / _normalize / evaluation (round {rnd + 1})")
    f = fresh(m)
    if not (e == f) or hash(e) != hash(f):
        raise violation(ID, sub, f"root-neq-fresh:{m[0]}", case, f"{M.text(m)[:200]} no longer equals a fresh copy")
    stats.count("objects-checked", len(snap) + len(returned))
    if len(snap) >= 4:
        stats.nontrivial_case(M.digest(M.canon(m)), {"expr": M.text(m)[:200], "objects": len(snap), "returned": len(returned)})


def run_skeletons(tier):
    from . import c11

    def run(stats, seed, shard, nshards):
        for name, sliceable, gen in c11.skeleton_blocks():
            i = 0
            for m in gen():
                i += 1
                if i % nshards != shard:
                    continue
                if sliceable and tier == "quick" and (i // nshards) % 16 != (seed + 9) % 16:
                    continue
                if tier == "quick":
                    div = {"chains": 8, "towers": 4, "ternary": 3}.get(name, 1)
                    if (i // nshards) % div != seed % div:
                        continue
                stats.count("block:" + name)
                immutability(stats, m)
    return run


def make_machine(stats):
    class C10Machine(C10Base):
        pass
    C10Machine.stats = stats
    return C10Machine


def parts(tier):
    n = 1500 if tier == "quick" else 30000
    return [run_part("skeletons", run_skeletons(tier)),
            machine_part("histories", make_machine, n, steps=30),
            machine_part("long-histories", make_machine, max(16, n // 10), steps=80)]


EXHAUSTIVE_PARTS = ["skeletons (the enumeration of C11; quick tier: a VERIF_SEED-chosen 1/16 of binary parents, 1/8 of unary chains, 1/4 of towers, 1/3 of 3-ary nodes, all unary parents; thorough tier: all)"]


def replay(case):
    if case.get("sub") == "skeleton":
        immutability(Stats(), case_model(case))
        return
    try:
        H.replay_history("c10", case["history"])
    except H.Mismatch as mm:
        raise violation(ID, mm.sub, mm.sig, case, mm.message)


def self_test(tier, agg):
    tot = {}
    for g in agg.values():
        for k, c in g["counters"].items():
            tot[k] = tot.get(k, 0) + c
    bad = []
    for op in ("as_expression", "normalize", "probe", "point_mutation", "make_deriv", "partial_at"):
        if tot.get("op:" + op, 0) < 50:
            bad.append(f"C10: operation {op} executed fewer than 50 times")
    if tot.get("feature:shared", 0) < 20:
        bad.append("C10: fewer than 20 histories with shared nodes")
    return bad
