"""C10 - operations never change their operands (stateful)."""
from __future__ import annotations
from hypothesis import strategies as st
from hypothesis.stateful import rule, precondition
from harness import history as H
from .common import *
from . import c09

ID = "C10"
RULE = ("Same RuleBasedStateMachine histories as C09 (pool of expressions sharing sub-expression objects, persistent "
        "derivative objects, expressions returned by as_expression()/_normalize() re-entering the pool, failing calls) "
        "plus Point(**d)-then-mutate-d and probe evaluations.  Every pooled object gets a snapshot at creation (canonical "
        "model, repr, hash of a separately built fresh copy).  Invariant after EVERY operation, for EVERY pooled object: "
        "its structure (walked through _inner/_left/_right/_inners/.n/.base/.name/.value) equals the snapshot, repr and "
        "str equal the snapshot, it == a fresh copy (both directions) with equal hash; points and derivative objects "
        "likewise; probe rule: the live object evaluates bit-identically to a fresh copy of its creation-time model.  "
        "Non-trivial = a history with >= 1 simplification or differentiation over shared nodes followed by further "
        "operations; distinct by SHA-1 of the history.")
ASSUMPTIONS = [
    "the structural walk uses the private child attributes the repository's own tests use",
    "probe evaluation of a live object is compared with a fresh copy of the model recorded when the object entered the pool",
]


class C10Base(c09.Machine):
    mode = "c10"
    prop = ID

    @rule(p=c09.points_st())
    def point_mutation(self, p):
        self._apply({"op": "point_mutation", "point": p})

    @rule(data=st.data(), p=c09.any_point(), bare=st.booleans())
    def probe(self, data, p, bare):
        self._apply({"op": "probe", "i": self._idx(data), "point": p, "bare": bare})

    def teardown(self):
        st_ = self.stats
        if st_ is None:
            return
        st_.case()
        st_.count("operations", self.w.ops)
        st_.count("snapshot-checks", self.w.ops * (len(self.w.models) + len(self.w.derivs) + len(self.w.points)))
        for f in self.w.features:
            st_.count("feature:" + f)
        for d in self.w.history:
            st_.count("op:" + d["op"])
        if "shared" in self.w.features and "after-simplification" in self.w.features and self.w.ops >= 3:
            st_.nontrivial_case(M.digest(repr(self.w.history)),
                                {"history": self.w.history_text(14), "pool": len(self.w.models), "features": sorted(self.w.features)})


def make_machine(stats):
    class C10Machine(C10Base):
        pass
    C10Machine.stats = stats
    return C10Machine


def parts(tier):
    n = 1500 if tier == "quick" else 30000
    return [machine_part("histories", make_machine, n, steps=30),
            machine_part("long-histories", make_machine, max(16, n // 10), steps=80)]


def replay(case):
    try:
        H.replay_history("c10", case["history"])
    except H.Mismatch as mm:
        raise violation(ID, mm.sub, mm.sig, case, mm.message)


def self_test(tier, agg):
    tot = {}
    for g in agg.values():
        for k, c in g["counters"].items():
            tot[k] = tot.get(k, 0) + c
    bad = []
    for op in ("as_expression", "normalize", "probe", "point_mutation", "make_deriv", "partial_at"):
        if tot.get("op:" + op, 0) < 50:
            bad.append(f"C10: operation {op} executed fewer than 50 times")
    if tot.get("feature:shared", 0) < 20:
        bad.append("C10: fewer than 20 histories with shared nodes")
    return bad
