"""C02 - DomainError is raised exactly at the points outside the (strict) domain."""
from __future__ import annotations
import math
from fractions import Fraction
from hypothesis import given, strategies as st
from harness import strategies as S
from harness import boundary as BD
from .common import *

ID = "C02"
RULE = ("Generated trees/DAGs x points, plus boundary injection (a constrained node at a generated position is "
        "shifted so that its argument is exactly on / 2^-k inside / 2^-k outside its boundary at the point) and "
        "masking contexts (an undefined sub-term under a zero factor, zero numerator, base one, exponent of base-1 "
        "exponential, self-cancelling sum, n=1 power/root, variable-free zero-valued trees, nested n-ary nodes). "
        "The same object is also evaluated at 2-4 points in a row (defined and undefined mixed).  Oracle = reference interpreter's exact/with-margin domain decision.  Non-trivial = decided case whose "
        "offending or nearest (distance <= 2^-10) constrained sub-expression lies at depth >= 2 or in a masking "
        "context; distinct by SHA-1 of (canonical model, point).  Part 'subnormal': trees over + - * / negation and reciprocal "
        "(arity <= 2) at coordinates k*2^e with e in [-1074,-1000]; own exact rational evaluator, decided only when every "
        "exact intermediate is exactly a double (subnormals included): DomainError iff a denominator is exactly zero, a "
        "finite number otherwise; non-trivial there = a non-zero subnormal denominator or an exact zero denominator.")
ASSUMPTIONS = [
    "documented strict domains: denominators != 0, log argument > 0, Power base > 0, root argument != 0 for n >= 2 and > 0 for even n",
    "cases within 4 eps of a boundary on the inexact track are undecidable for a float implementation and skipped (counted)",
    "cases whose exact intermediates leave [1e-100,1e100] are out of scope (counted as range)",
]


def depth_of(m, target):
    best = [None]

    def go(x, d):
        if x is target:
            if best[0] is None or d < best[0]:
                best[0] = d
            return
        if d > 60:
            return
        for c in M.children(x):
            go(c, d + 1)
    go(m, 0)
    return best[0] if best[0] is not None else 0


def check(stats, m, env, info=None, sub="domain", wide=False):
    stats.case()
    info = info or {}
    r, ctx = RE.evaluate(m, env, lo=1e-290, hi=1e290) if wide else RE.evaluate(m, env)
    stats.count("ref:" + r.st)
    if info.get("mask"):
        stats.count("mask:" + info["mask"] + ":" + r.st)
    if info.get("kind"):
        stats.count("kind:" + info["kind"] + ":" + r.st)
    if r.st not in (RE.DEFINED, RE.UNDEF):
        return
    e = build(m)
    out = lib.call(lambda: e.at(lib.Point(**env)))
    case = make_case(sub, m, env, info=info)
    where = f"{M.text(m)[:300]} at {M.point_text(env)}"
    if r.st == RE.UNDEF:
        bad, reason = ctx.first_bad
        if out.kind != lib.DOM:
            raise violation(ID, sub, f"undefined-but:{out.kind}:{bad[0]}:{info.get('mask', '-')}", case,
                            f"{where}: sub-expression {M.text(bad)[:120]} is outside its domain ({reason}) "
                            f"but at() gave {out!r}")
        d = depth_of(m, bad)
        nt = d >= 2 or info.get("mask", "plain") != "plain"
    else:
        if out.kind == lib.DOM:
            raise violation(ID, sub, f"defined-but-raises:{m[0]}", case,
                            f"{where}: every sub-expression is inside its domain (value {r.v}) but at() raised DomainError")
        if out.kind != lib.NUM:
            raise violation(ID, sub, f"defined-but:{out.kind}", case,
                            f"{where}: defined with value {r.v} but at() gave {out!r}")
        near = [(n, dist) for n, dist in ctx.near if dist <= 2.0 ** -10]
        nt = any(depth_of(m, n) >= 1 for n, _ in near)
        if near:
            stats.count("defined-near-boundary")
    if nt:
        stats.nontrivial_case(M.digest(M.canon(m), sorted(env.items())),
                              describe(m, env, reference=r.st, library=repr(out), **{k: str(v) for k, v in info.items()}))


def check_sequence(stats, m, envs, sub="sequence"):
    """One expression object evaluated at several points in a row: DomainError exactly at the undefined ones,
    whatever happened before (a failed evaluation must not poison or mask the next one)."""
    stats.case()
    e = build(m)
    trail = []
    kinds = set()
    for k, env in enumerate(envs):
        r, ctx = RE.evaluate(m, env)
        out = lib.call(lambda: e.at(lib.Point(**env)))
        trail.append(f"{M.point_text(env)} -> {out!r}")
        if r.st not in (RE.DEFINED, RE.UNDEF) or out.kind == lib.OVF:
            continue
        kinds.add(r.st)
        case = make_case(sub, m, None, points=[M.point_to_json(x) for x in envs[:k + 1]])
        where = f"{M.text(m)[:250]}: evaluations in a row on one object: {'; '.join(trail)}"
        if r.st == RE.UNDEF and out.kind != lib.DOM:
            raise violation(ID, sub, f"sequence-undefined-but:{out.kind}", case, f"{where}: the last point is outside the domain ({ctx.first_bad[1]})")
        if r.st == RE.DEFINED and out.kind != lib.NUM:
            raise violation(ID, sub, f"sequence-defined-but:{out.kind}", case, f"{where}: the last point is inside the domain (value {r.v})")
        stats.count("sequence-evaluations")
    if len(kinds) == 2:
        stats.count("sequence-mixed")
        stats.nontrivial_case(M.digest(M.canon(m), [sorted(x.items()) for x in envs]), {"expr": M.text(m)[:300], "sequence": trail[:4]})


def make_sequence(stats):
    @given(st.data())
    def test(data):
        names = data.draw(S.name_lists(1, 3))
        k = data.draw(st.integers(0, 2))
        if k == 0:
            m = data.draw(S.expressions(names, depth=3))
            envs = [data.draw(S.points(names)) for _ in range(data.draw(st.integers(2, 4)))]
        else:
            # the same constrained node on / off its boundary at consecutive points
            m, env, _info = data.draw(BD.injected(names, depth=2))
            envs = [env] + [data.draw(S.points(names)) for _ in range(data.draw(st.integers(1, 3)))]
            envs = data.draw(st.permutations(envs))
        check_sequence(stats, m, list(envs))
    return test


def make_general(stats):
    @given(st.data())
    def test(data):
        names = data.draw(S.name_lists())
        m = data.draw(S.expressions(names, depth=3))
        env = data.draw(S.points(names))
        check(stats, m, env)
    return test


def make_boundary(stats):
    @given(st.data())
    def test(data):
        names = data.draw(S.name_lists())
        m, env, info = data.draw(BD.injected(names))
        check(stats, m, env, info, sub="boundary")
    return test


def make_extreme(stats):
    """Tiny-but-non-zero and huge arguments of constrained nodes (1e-250 .. 1e250): defined, must not raise; and
    exact zeros next to them: must raise."""
    @given(st.data())
    def test(data):
        names = data.draw(S.name_lists(1, 2))
        env = {n: data.draw(S.extreme_values()) for n in names}
        arg = data.draw(S.trees(names, depth=1, leaf=S.extreme_leaves(names)))
        node = data.draw(BD.constrained(names, arg))
        outer = data.draw(S.trees(names, depth=1, leaf=S.extreme_leaves(names)))
        ps = M.paths(outer, limit=30)
        m = M.replace(outer, data.draw(st.sampled_from(ps)), node)
        check(stats, m, env, {"kind": node[0]}, sub="extreme", wide=True)
    return test


# ---------------------------------------------------------------------------------------------
# subnormal magnitudes: the bottom of the double range (2^-1074 .. 2^-1000), decided exactly

TINY_TAGS = ("Add", "Multiply", "Minus", "Divide", "Negation", "Reciprocal")


def double_exact(q):
    """Is the rational exactly a double, subnormals included?"""
    if q == 0:
        return True
    d = q.denominator
    if d & (d - 1) or d.bit_length() - 1 > 1074:
        return False
    n = abs(q.numerator)
    n >>= (n & -n).bit_length() - 1
    return n.bit_length() <= 53 and abs(q) < Fraction(2) ** 1000


def tiny_eval(m, env, notes):
    """Exact rational value of a tree over TINY_TAGS (arity <= 2) whose every intermediate is exactly a double:
    ('ok', q) | ('undef', node) | ('range', node).  notes collects the denominators met."""
    t = m[0]
    if t == "Constant":
        return "ok", Fraction(m[1])
    if t == "Variable":
        return "ok", Fraction(env[m[1]])
    kids = [tiny_eval(c, env, notes) for c in M.children(m)]
    for st_ in ("range", "undef"):
        for k in kids:
            if k[0] == st_:
                return k
    qs = [k[1] for k in kids]
    if t == "Add":
        q = sum(qs, Fraction(0))
    elif t == "Multiply":
        q = Fraction(1)
        for x in qs:
            q *= x
    elif t == "Minus":
        q = qs[0] - qs[1]
    elif t == "Negation":
        q = -qs[0]
    else:
        den = qs[-1]
        notes.append(den)
        if den == 0:
            return "undef", m
        q = (qs[0] if t == "Divide" else Fraction(1)) / den
    if not double_exact(q):
        return "range", m
    return "ok", q


def check_tiny(stats, m, env, prop=None, sub="subnormal"):
    """prop C02: DomainError exactly when a denominator is exactly zero, a finite number otherwise - also when the
    denominator is a subnormal double.  prop C01: that number is exactly the rational value."""
    pid = prop or ID
    stats.case()
    notes = []
    st_, q = tiny_eval(m, env, notes)
    stats.count("tiny:" + st_)
    if st_ == "range":
        return
    out = lib.call(lambda: build(m).at(lib.Point(**env)))
    case = make_case(sub, m, env)
    where = f"{M.text(m)[:300]} at {M.point_text(env)}"
    if out.kind == lib.OVF:
        stats.count("overflow-skip")
        return
    if pid == ID:
        if st_ == "undef" and out.kind != lib.DOM:
            raise violation(pid, sub, f"undefined-but:{out.kind}:{q[0]}", case,
                            f"{where}: the denominator of {M.text(q)[:120]} is exactly zero but at() gave {out!r}")
        if st_ == "ok" and out.kind == lib.DOM:
            raise violation(pid, sub, f"defined-but-raises:{m[0]}", case,
                            f"{where}: every denominator is non-zero (the smallest is {float(min(abs(d) for d in notes)) if notes else None!r}) "
                            f"and every exact intermediate is a double, exact value {float(q)!r}, but at() raised DomainError")
        if st_ == "ok" and (out.kind != lib.NUM or not math.isfinite(out.value)):
            raise violation(pid, sub, f"defined-but:{out.kind}", case, f"{where}: exact value {float(q)!r} but at() gave {out!r}")
    elif st_ == "ok" and out.kind != lib.NUM:
        raise violation(pid, sub, f"no-number:{out.kind}", case,
                        f"{where}: a point of the domain (every denominator non-zero, every exact intermediate a double), exact value "
                        f"{float(q)!r}, but at() gave {out!r}")
    elif st_ == "ok" and Fraction(out.value) != q:
        raise violation(pid, sub, f"inexact:{m[0]}", case,
                        f"{where}: every exact intermediate is a dyadic rational that is exactly a double; expected exactly "
                        f"{float(q)!r}, got {out.value!r}")
    small = [d for d in notes if d != 0 and abs(d) < Fraction(1, 2 ** 1022)]
    if small or st_ == "undef":
        if small:
            stats.count("subnormal-denominator")
        stats.nontrivial_case(M.digest(M.canon(m), sorted(env.items())),
                              describe(m, env, reference=st_, library=repr(out), subnormal_denominators=len(small)))


def tiny_values():
    return st.builds(lambda k, e, sg: sg * math.ldexp(float(k), e), st.integers(1, 7),
                     st.one_of(st.integers(-1074, -1022), st.integers(-1040, -1000)), st.sampled_from([1, -1]))


@st.composite
def tiny_trees(draw, names, depth):
    if depth == 0 or draw(st.integers(0, 4)) == 0:
        if draw(st.integers(0, 3)) == 0:
            return ("Constant", draw(st.sampled_from([0, 1, 2, 3, -1, 0.5, 4, -2, 0.25])))
        return ("Variable", draw(st.sampled_from(names)))
    t = draw(st.sampled_from(TINY_TAGS))
    if t in ("Add", "Multiply"):
        return (t, tuple(draw(tiny_trees(names, depth - 1)) for _ in range(draw(st.integers(1, 2)))))
    if t in ("Minus", "Divide"):
        return (t, draw(tiny_trees(names, depth - 1)), draw(tiny_trees(names, depth - 1)))
    return (t, draw(tiny_trees(names, depth - 1)))


def make_tiny(stats, prop=None):
    @given(st.data())
    def test(data):
        names = data.draw(S.name_lists(1, 3))
        env = {n: data.draw(tiny_values()) for n in names}
        if len(names) >= 2 and data.draw(st.booleans()):
            env[names[1]] = env[names[0]] * data.draw(st.sampled_from([1, 2, 3, -1, 0.5]))     # related coordinates: exact quotients, exact zeros
        if data.draw(st.integers(0, 3)) == 0:
            m = data.draw(tiny_trees(names, data.draw(st.integers(1, 3))))
        else:
            # a quotient of two subnormal-valued terms (the quotient itself is an ordinary number), inside a small context
            def small():
                v = ("Variable", data.draw(st.sampled_from(names)))
                w = ("Variable", data.draw(st.sampled_from(names)))
                c = ("Constant", data.draw(st.sampled_from([1, 2, 3, -1, 0.5, 4, -2])))
                return data.draw(st.sampled_from([v, ("Add", (v, w)), ("Minus", v, w), ("Multiply", (v, c)), ("Negation", v),
                                                  ("Multiply", (c, w)), ("Add", (v,)), ("Minus", ("Multiply", (v, c)), w)]))
            quot = ("Divide", small(), small())
            outer = data.draw(st.sampled_from(["id", "Add", "Multiply", "Minus", "Negation", "Divide", "Reciprocal"]))
            k = ("Constant", data.draw(st.sampled_from([1, 2, 3, -1, 0.5, 0])))
            m = {"id": quot, "Add": ("Add", (quot, k)), "Multiply": ("Multiply", (k, quot)), "Minus": ("Minus", k, quot),
                 "Negation": ("Negation", quot), "Divide": ("Divide", k, quot), "Reciprocal": ("Reciprocal", quot)}[outer]
        check_tiny(stats, m, env, prop)
    return test


def make_masked(stats):
    @given(st.data())
    def test(data):
        names = data.draw(S.name_lists(0, 4))
        m, env, info = data.draw(BD.masked_cases(names))
        check(stats, m, env, info, sub="masked")
    return test


def parts(tier):
    n = 20000 if tier == "quick" else 400000
    return [hyp_part("general", make_general, int(n * 0.25)),
            hyp_part("boundary", make_boundary, int(n * 0.3)),
            hyp_part("masked", make_masked, int(n * 0.3)),
            hyp_part("sequence", make_sequence, int(n * 0.15)), hyp_part("extreme", make_extreme, int(n * 0.1)),
            hyp_part("subnormal", make_tiny, int(n * 0.1))]


def replay(case):
    if case.get("sub") == "sequence":
        check_sequence(Stats(), case_model(case), [M.point_from_json(p) for p in case["points"]])
        return
    if case.get("sub") == "subnormal":
        check_tiny(Stats(), case_model(case), case_point(case))
        return
    check(Stats(), case_model(case), case_point(case), case.get("info"), sub=case.get("sub", "domain"), wide=case.get("sub") == "extreme")


def self_test(tier, agg):
    bad = []
    c = agg.get("masked", {}).get("counters", {})
    for mask in BD.MASKS:
        if c.get(f"mask:{mask}:undefined", 0) < 5:
            bad.append(f"C02 masked: context {mask} produced < 5 decided-undefined cases")
    c = agg.get("boundary", {}).get("counters", {})
    for kind in BD.KINDS:
        if c.get(f"kind:{kind}:undefined", 0) < 5 or c.get(f"kind:{kind}:defined", 0) < 5:
            bad.append(f"C02 boundary: kind {kind} lacks decided cases on one side")
    return bad
