"""C11 - simplification terminates in a rule-free form, without cycles."""
from __future__ import annotations
import itertools
import math
from hypothesis import given, strategies as st
from harness import strategies as S
from harness import redex as RX
from harness import trace as T
from .common import *


def _sanitize(m):
    from harness.sanitize import sanitize
    return sanitize(m)



ID = "C11"
RULE = ("(a) EXHAUSTIVE enumeration of small skeletons: every parent x child x grandchild over the 15 constructors "
        "(n in {1,2,3,4,6}, exponential bases {e,2,1}, log bases {e,2}, binary/2-ary parents over all depth<=2 "
        "children, leaves {x,y,0,1,-1,2}), all unary chains of three parameterised constructors, self-similar towers (every "
        "constructor pair nested 6 and 9 times into each of its free slots), parent(Add|Multiply(g1(+-x), g2(+-y))) for all "
        "parameterised unary parents and grandchildren (sliced like the binary part), and all 3-ary "
        "sums/products over rule-relevant children (quick tier: a VERIF_SEED-chosen 1/16 slice of the binary part; "
        "thorough: all of it); (b) generated trees/DAGs up to ~400 nodes and redex templates; (c) nested chains up to "
        "depth 150; (d) raw symbolic partials; (e) *reuse*: an expression the library returned (a normal form or a simplified "
        "partial) used, as the very object, as an operand of a new expression (16 contexts).  The harness drives _take_reduction_step to the fully-reduced flag and "
        "checks the trace invariant: no form (canonical model, consecutive duplicates collapsed) ever repeats, and no form is "
        "returned unchanged for more than 2 steps per node + 10 (flag propagation only); steps <= "
        "s^2+10s+50 and every intermediate size <= 3s+10 (s = input nodes); the final form is rule-free (a fresh copy of "
        "it reaches the flag with no structural change); for s <= 20 the library's own _normalize() emits no "
        "step-budget warning.  Non-trivial = a trace with >= 2 structural rewrites; distinct by canonical input.")
ASSUMPTIONS = [
    "private entry points _take_reduction_step / _is_fully_reduced / _normalize exist (as used by the repository's tests)",
    "termination is decided for the enumerated skeletons and sampled trees only; the quadratic bound has >= 3x headroom over the observed worst case (3.2 s steps, 1.0 s size)",
]
EXHAUSTIVE_PARTS = ["skeletons (thorough tier: complete; quick tier: complete for unary parents, chains and 3-ary parts, 1/16 slice of binary parents)"]

X, Y = ("Variable", "x"), ("Variable", "y")
LEAVES = [X, Y, ("Constant", 0), ("Constant", 1), ("Constant", -1), ("Constant", 2)]
NS = [1, 2, 3, 4, 6]


def unary_shapes():
    out = [lambda c, t=t: (t, c) for t in M.UNARY]
    out += [lambda c, n=n: ("NthPower", c, n) for n in NS]
    out += [lambda c, n=n: ("NthRoot", c, n) for n in NS]
    out += [lambda c, b=b: ("Exponential", c, b) for b in (math.e, 2, 1)]
    out += [lambda c, b=b: ("Logarithm", c, b) for b in (math.e, 2)]
    return out


def binary_shapes():
    return [lambda a, b: ("Minus", a, b), lambda a, b: ("Divide", a, b), lambda a, b: ("Power", a, b),
            lambda a, b: ("Add", (a, b)), lambda a, b: ("Multiply", (a, b))]


def depth2_terms():
    us, bs = unary_shapes(), binary_shapes()
    out = list(LEAVES)
    out += [u(l) for u in us for l in LEAVES]
    out += [b(l1, l2) for b in bs for l1 in LEAVES for l2 in LEAVES]
    return out


ADD_KIDS = [X, ("Constant", 0), ("Constant", 1), ("Negation", X), ("Add", (X, Y)), ("Logarithm", X, math.e),
            ("Logarithm", Y, math.e), ("Logarithm", X, 2), ("Minus", X, Y), ("Constant", 2), ("Negation", ("Negation", Y)),
            ("Negation", ("Logarithm", Y, math.e)), ("Negation", ("Logarithm", X, 2)), ("Logarithm", Y, 2), ("Constant", -3),
            ("Logarithm", ("Multiply", (X, Y)), math.e), ("Multiply", (("Constant", 2), X))]
MUL_KIDS = [X, ("Constant", 0), ("Constant", 1), ("Constant", -1), ("Constant", 2), ("Negation", X), ("Negation", Y),
            ("Reciprocal", X), ("Multiply", (X, Y)), ("NthPower", X, 2), ("NthPower", Y, 2), ("NthPower", X, 3),
            ("NthRoot", X, 2), ("NthRoot", Y, 2), ("NthRoot", X, 3), ("Exponential", X, math.e),
            ("Exponential", Y, math.e), ("Exponential", X, 2), ("Divide", X, Y), ("Reciprocal", ("NthPower", X, 2)),
            ("Exponential", Y, 2), ("NthRoot", Y, 3), ("Reciprocal", Y),
            ("Exponential", ("Add", (X, Y)), math.e), ("NthPower", ("Multiply", (X, Y)), 2), ("NthRoot", ("Multiply", (X, Y)), 2)]


def skeleton_blocks():
    """[(block name, sliceable?, generator function)]"""
    us, bs = unary_shapes(), binary_shapes()
    t2 = depth2_terms()

    def unary_parents():
        for u in us:
            for c in t2:
                yield u(c)

    def chains():
        for a in us:
            for b in us:
                for c in us:
                    for leaf in (X, ("Constant", 2)):
                        yield a(b(c(leaf)))

    def binary_parents():
        for b in bs:
            for c1 in t2:
                for c2 in t2:
                    yield b(c1, c2)

    def ternary():
        for a, b, c in itertools.product(ADD_KIDS, repeat=3):
            yield ("Add", (a, b, c))
        for a, b, c in itertools.product(MUL_KIDS, repeat=3):
            yield ("Multiply", (a, b, c))
        for k in (0, 1):
            for a in ADD_KIDS + MUL_KIDS:
                yield ("Add", (a,) * k)
                yield ("Multiply", (a,) * k)
    def towers():
        """Self-similar nestings: for every (parent, child, position) constructor pair and every free slot, the
        pattern is nested into that slot 6 and 9 times.  Blow-ups that need a rule to meet its own output again and
        again (size or steps multiplying per level) live here."""
        tags = list(M.ALL_TAGS[2:])

        def mk(t, kids, n, b):
            if t in M.UNARY:
                return (t, kids[0])
            if t in M.PARAM_N:
                return (t, kids[0], n)
            if t in M.PARAM_BASE:
                return (t, kids[0], b)
            if t in M.BINARY:
                return (t, kids[0], kids[1])
            return (t, (kids[0], kids[1]))

        def arity(t):
            return 2 if (t in M.BINARY or t in M.NARY) else 1
        for pt in tags:
            for ct in tags:
                for pos in range(arity(pt)):
                    holes = [("child", i) for i in range(arity(ct))] + [("parent", i) for i in range(arity(pt)) if i != pos]
                    for hole in holes:
                        for (n, b, depth) in ((2, math.e, 6), (3, 2, 9)):
                            t = X
                            for level in range(depth):
                                ckids = [Y, ("Constant", 2)]
                                pkids = [X, Y]
                                if hole[0] == "child":
                                    ckids[hole[1]] = t
                                child = mk(ct, ckids, n, b)
                                pkids[pos] = child
                                if hole[0] == "parent":
                                    pkids[hole[1]] = t
                                t = mk(pt, pkids, n, b)
                            yield t
    def nary_mid():
        """parent( Add|Multiply ( g1(+-x), g2(+-y) ) ) for every parameterised unary parent and grandchildren: the
        three-level shapes in which a parent rule meets TWO like operands gathered by an n-ary node (same n, same base
        combinations included because every parameter value is enumerated)."""
        nx, ny = ("Negation", X), ("Negation", Y)
        for p_ in us:
            for mid in ("Add", "Multiply"):
                for g1 in us:
                    for a in (X, nx):
                        for g2 in us:
                            for b in (Y, ny):
                                yield p_((mid, (g1(a), g2(b))))
    def nary_mid_aligned():
        """the sub-family of nary-mid in which both grandchildren are the SAME constructor with the same parameter
        (what consolidation rules gather) - small enough to be enumerated completely in the quick tier as well"""
        nx, ny = ("Negation", X), ("Negation", Y)
        for p_ in us:
            for mid in ("Add", "Multiply"):
                for g in us:
                    for a in (X, nx):
                        for b in (Y, ny):
                            yield p_((mid, (g(a), g(b))))
                            yield p_((mid, (g(a), Y, g(b))))
    return [("unary-parents", False, unary_parents), ("chains", False, chains), ("ternary", False, ternary),
            ("towers", False, towers), ("nary-mid-aligned", False, nary_mid_aligned),
            ("binary-parents", True, binary_parents), ("nary-mid", True, nary_mid)]


def invariant(stats, m, sub, big=False, start=None, case=None):
    """Drives the simplifier on a fresh build of m (streaming: constant memory) and checks the
    trace invariant.  start: drive this already built object (whose model is m) instead of a fresh build."""
    if start is None:
        m = safe(m)
    stats.case()
    s = M.size(m)
    step_bound = s * s + 10 * s + 50
    case = case or make_case(sub, m, None, size=s)
    what = M.text(m)[:300]
    cur = build(m) if start is None else start
    seen = {}
    last = None
    stutter = 0
    worst_stutter = 0.0
    sz = s
    rewrites = 0
    steps = 0
    final = None
    try:
        while True:
            mod = to_model(cur)
            c = M.digest(M.canon(mod))
            if c == last:
                stutter += 1
                if stutter > 2 * sz + 10:
                    raise violation(ID, sub, f"no-progress:{m[0]}", case,
                                    f"{what} ({s} nodes): {stutter} consecutive steps (up to step {steps}) returned the same {sz}-node form "
                                    f"{M.text(mod)[:200]} without reaching the fully-reduced flag (a step that changes nothing may only "
                                    f"propagate flags, at most once per node)")
            else:
                worst_stutter = max(worst_stutter, stutter / float(sz + 1)) if last is not None else 0.0
                stutter = 0
            if c != last:
                if c in seen:
                    raise violation(ID, sub, f"cycle:{m[0]}", case,
                                    f"{what}: the form reached after step {steps} was already seen after step {seen[c]}: {M.text(mod)[:200]}")
                seen[c] = steps
                if last is not None:
                    rewrites += 1
                last = c
                sz = M.size(mod)
                if sz > 3 * s + 10:
                    raise violation(ID, sub, f"growth:{m[0]}", case,
                                    f"{what} ({s} nodes): intermediate form after step {steps} has {sz} nodes (> 3s+10)")
            if cur._is_fully_reduced:
                final = mod
                break
            if steps >= step_bound:
                raise violation(ID, sub, f"no-termination:{m[0]}", case,
                                f"{what} ({s} nodes): not fully reduced after {steps} steps (bound s^2+10s+50 = {step_bound})")
            cur = cur._take_reduction_step()
            steps += 1
    except (OverflowError, MemoryError):
        stats.count("overflow-skip")
        return
    except AttributeError as ex:
        raise HarnessError(f"simplifier entry points not found: {ex}") from ex
    except (Violation, HarnessError, RecursionError):
        raise
    except Exception as ex:  # noqa: which exceptions may escape is C17's subject
        stats.count("step-raised:" + type(ex).__name__)
        return
    stats.count("steps", steps)
    stats.count("rewrites", rewrites)
    worst_stutter = max(worst_stutter, stutter / float(sz + 1))
    if worst_stutter > 1.0:
        stats.count("stutter-above-one-per-node")      # observed: never on the unchanged tree (bound used: 2 per node + 10)
    stats.ratio(steps / float(step_bound), f"{what} steps={steps} s={s}")
    # rule-free: a fresh copy of the final form must reach the flag without any structural change
    tr2 = T.drive(fresh(final), limit=M.size(final) * 3 + 20, normal_form=False)
    if tr2.error is None:
        if not tr2.reduced:
            raise violation(ID, sub, f"final-not-stable:{m[0]}", case,
                            f"{what}: a fresh copy of the final form {M.text(final)[:200]} does not reach the fully-reduced flag")
        cf = M.canon(final)
        for mod in tr2.models:
            if M.canon(mod) != cf:
                raise violation(ID, sub, f"final-not-rule-free:{final[0]}", case,
                                f"{what}: the form flagged fully reduced, {M.text(final)[:200]}, is still rewritten to {M.text(mod)[:200]}")
    # the flag must really be set on the object the driver returned (one more step is a no-op)
    again = cur._take_reduction_step()
    if M.canon(to_model(again)) != M.canon(final):
        raise violation(ID, sub, f"flag-lies:{final[0]}", case, f"{what}: stepping the flagged form changes it")
    if s <= 20:
        w = lib.budget_warnings()
        n0 = w.n
        lib.call(lambda: build(m)._normalize())
        if w.n > n0:
            raise violation(ID, sub, f"budget-warning-small:{m[0]}", case,
                            f"{what} ({s} nodes <= 20): the library's own _normalize() hit its step budget (warning emitted)")
        stats.count("small-no-warning")
    if rewrites >= 2:
        stats.nontrivial_case(M.digest(M.canon(m)), {"expr": what, "nodes": s, "steps": steps, "rewrites": rewrites,
                                                     "final": M.text(final)[:200]})


def run_skeletons(tier):
    def run(stats, seed, shard, nshards):
        for name, sliceable, gen in skeleton_blocks():
            i = 0
            for m in gen():
                i += 1
                if i % nshards != shard:
                    continue
                if sliceable and tier == "quick" and (i // nshards) % 16 != seed % 16:
                    continue
                stats.count("block:" + name)
                invariant(stats, m, "skeleton")
    return run


def make_random(stats):
    @given(st.data())
    def test(data):
        names = data.draw(S.name_lists(1, 3))
        k = data.draw(st.integers(0, 9))
        if k < 4:
            m = data.draw(S.expressions(names, depth=4))
        elif k < 7:
            _, m = data.draw(RX.placed(names, depth=2))
        else:
            from .c08 import big_inputs
            m = data.draw(S.wide(names)) if k < 9 else data.draw(big_inputs(names))
        if M.size(m) > 450:
            stats.count("too-large")
            return
        stats.count("size>=100" if M.size(m) >= 100 else "size<100")
        invariant(stats, m, "random")
    return test


@st.composite
def long_chains(draw, names):
    n = draw(st.integers(20, 150))
    m = draw(S.leaves(names, 2))
    pool = ["Negation", "Reciprocal", "Cosine", "Sine", "NthPower", "NthRoot", "Exponential", "Logarithm", "Negation",
            "Reciprocal", "NthPower", "NthRoot"]
    bias = draw(st.lists(st.sampled_from(pool), min_size=1, max_size=4))
    for _ in range(n):
        t = draw(st.sampled_from(bias if draw(st.integers(0, 3)) else pool))
        if t in M.UNARY:
            m = (t, m)
        elif t in M.PARAM_N:
            m = (t, m, draw(st.sampled_from([1, 2, 3, 4, 6])))
        elif t == "Exponential":
            m = (t, m, draw(st.sampled_from([math.e, 2, 1])))
        else:
            m = (t, m, draw(st.sampled_from([math.e, 2])))
    return _sanitize(m)


def make_chains(stats):
    @given(st.data())
    def test(data):
        names = data.draw(S.name_lists(1, 2))
        m = data.draw(long_chains(names))
        invariant(stats, m, "chains")
    return test


def make_large(stats):
    """Inputs of 100-450 nodes BY CONSTRUCTION: a sum / product (or a two-level mix) of generated terms, extended until
    it has at least 100 nodes."""
    @given(st.data())
    def test(data):
        names = data.draw(S.name_lists(1, 3))
        tag = data.draw(st.sampled_from(["Add", "Multiply"]))
        other = "Multiply" if tag == "Add" else "Add"
        terms = []
        size = 1
        while size < 100 and len(terms) < 120:
            if data.draw(st.integers(0, 3)) == 0:
                _, t = data.draw(RX.placed(names, depth=1))
            else:
                t = data.draw(S.trees(names, depth=data.draw(st.integers(1, 3))))
            if data.draw(st.integers(0, 4)) == 0:
                t = (other, (t, data.draw(S.trees(names, depth=1))))
            terms.append(t)
            size += M.size(t)
        m = (tag, tuple(terms))
        if data.draw(st.booleans()):
            m = data.draw(st.sampled_from([("Negation", m), ("Reciprocal", m), ("NthPower", m, 2), ("Exponential", m, 2), ("Sine", m)]))
        m = safe(m)
        if M.size(m) > 450:
            stats.count("too-large")
            return
        stats.count("size>=100" if M.size(m) >= 100 else "size<100")
        invariant(stats, m, "random")
    return test


def make_partials(stats):
    @given(st.data())
    def test(data):
        names = data.draw(S.name_lists(1, 3))
        base = data.draw(S.expressions(names, depth=3))
        var = data.draw(st.sampled_from(names))
        e = build(base)
        raw = lib.call(lambda: e._synthetic_partial(var) if data.draw(st.booleans())
                       else e._synthetic_partials().get(var, e._synthetic_partial(var)))
        if raw.kind != lib.EXPR:
            raise HarnessError(f"cannot obtain raw symbolic partial: {raw!r}")
        m = to_model(raw.value)
        if M.size(m) > 450:
            stats.count("too-large")
            return
        invariant(stats, m, "partials")
    return test


REUSE_CONTEXTS = ["id", "Negation", "Reciprocal", "Add-x", "x-Add", "Multiply-x", "Minus-left", "Minus-right", "Divide-left",
                  "Divide-right", "NthPower2", "Exponential", "Add-self", "Multiply-self", "Logarithm", "Sine"]


def check_reuse(stats, m1, how, var, ctx, sub="reuse"):
    """An expression the library RETURNED (normal form of m1, or a simplified symbolic partial of it) is used - as the
    very object - as an operand of a new expression, which must again rewrite to a form to which no rule applies."""
    m1 = safe(m1)
    e1 = build(m1)
    out = lib.call((lambda: e1._normalize()) if how == "normalize" else (lambda: lib.Partial(e1, var).as_expression()))
    if out.kind != lib.EXPR:
        stats.count("reuse-no-expression:" + out.kind)
        return
    r = out.value
    mr = to_model(r)
    if M.size(mr) > 200:
        stats.count("too-large")
        return
    x = ("Variable", var)
    mc = {"id": mr, "Negation": ("Negation", mr), "Reciprocal": ("Reciprocal", mr), "Add-x": ("Add", (mr, x)), "x-Add": ("Add", (x, mr)),
          "Multiply-x": ("Multiply", (mr, x)), "Minus-left": ("Minus", mr, x), "Minus-right": ("Minus", x, mr),
          "Divide-left": ("Divide", mr, x), "Divide-right": ("Divide", x, mr), "NthPower2": ("NthPower", mr, 2),
          "Exponential": ("Exponential", mr, 2), "Add-self": ("Add", (mr, mr)), "Multiply-self": ("Multiply", (mr, ("Constant", 2), mr)),
          "Logarithm": ("Logarithm", mr, 2), "Sine": ("Sine", mr)}[ctx]
    start = build(mc, share=True, memo={id(mr): r})
    stats.count("reuse:" + ctx)
    case = make_case(sub, m1, None, how=how, var=var, ctx=ctx)
    invariant(stats, mc, sub, start=start, case=case)


def make_reuse(stats):
    @given(st.data())
    def test(data):
        names = data.draw(S.name_lists(1, 3))
        if data.draw(st.booleans()):
            _t, m1 = data.draw(RX.placed(names, depth=1))
        else:
            m1 = data.draw(S.expressions(names, depth=2))
        check_reuse(stats, m1, data.draw(st.sampled_from(["normalize", "partial"])), data.draw(st.sampled_from(names)),
                    data.draw(st.sampled_from(REUSE_CONTEXTS)))
    return test


def parts(tier):
    n = 6000 if tier == "quick" else 100000
    return [run_part("skeletons", run_skeletons(tier)),
            hyp_part("random", make_random, int(n * 0.4)), hyp_part("large", make_large, int(n * 0.05)),
            hyp_part("chains", make_chains, int(n * 0.15)),
            hyp_part("partials", make_partials, int(n * 0.3)),
            hyp_part("reuse", make_reuse, int(n * 0.25))]


def replay(case):
    if case.get("sub") == "reuse":
        check_reuse(Stats(), case_model(case), case["how"], case["var"], case["ctx"])
        return
    invariant(Stats(), case_model(case), case.get("sub", "skeleton"))


def self_test(tier, agg):
    bad = []
    c = agg.get("skeletons", {}).get("counters", {})
    for b in ("unary-parents", "chains", "ternary", "towers", "nary-mid-aligned", "binary-parents", "nary-mid"):
        if c.get("block:" + b, 0) < (500 if b == "towers" else 1000):
            bad.append(f"C11: skeleton block {b} enumerated too few terms")
    if agg.get("random", {}).get("counters", {}).get("size>=100", 0) + agg.get("large", {}).get("counters", {}).get("size>=100", 0) < 20:
        bad.append("C11: fewer than 20 random inputs with >= 100 nodes")
    return bad
