"""C17 - only the library's own errors escape, and results are real numbers."""
from __future__ import annotations
import os
from hypothesis import given, strategies as st
from harness import strategies as S
from harness import boundary as BD
from harness import deriv as DV
from .common import *

ID = "C17"
RULE = ("Any generated tree/DAG (general mix, boundary-injected, masked-undefined, legal exotic variable names) x any "
        "finite point (inside, outside, exactly on domain boundaries, with and without missing coordinates) x every API "
        "route (at with Point / bare number, 14 numeric derivative routes, 6 as_expression routes, _normalize), "
        "range-filtered by the reference interpreter (cases with an exact intermediate outside [1e-60,1e60] are skipped "
        "and counted).  Oracle: outcome in {finite int/float (not bool/complex/nan/inf), Expression, DomainError, "
        "CoordinateMissing}; anything else is bucketed by (exception type, innermost smoothmath frame) so that several "
        "root causes are reported by one run.  Non-trivial = case on / within 2^-10 of a domain boundary, or with a "
        "missing coordinate, or with an exact-zero multiplier that a derivative formula divides by; distinct by SHA-1 of "
        "(canonical model, point).")
ASSUMPTIONS = [
    "OverflowError / MemoryError from astronomically large exact intermediates is CPython's spelling of leaving the double range: counted as range, never reported",
    "at(number) is only called for expressions with at most one variable (for more it is rejected by design, C14)",
]


def classify(out):
    if out.kind in (lib.NUM, lib.EXPR, lib.DOM, lib.MISS, lib.OBJ):
        return None
    if out.kind == lib.OVF:
        return "range"
    if out.kind == lib.EXC:
        return f"{out.detail[0]}@{out.detail[1]}"
    return f"weird:{out.detail[0]}"


def check(stats, m, env, sub="escape", info=None, symbolic=True):
    m = safe(m)
    stats.case()
    if os.environ.get("VERIF_BREADCRUMB"):
        with open(f"/tmp/breadcrumb-{os.getpid()}.txt", "w") as f:
            f.write(M.text(m) + "\n" + M.point_text(env) + "\n")
    vs = M.variables(m)
    r, ctx = DV.value_context(m, {k: v for k, v in env.items()}) if all(v in env for v in vs) else (None, None)
    incomplete = r is None
    if r is not None:
        stats.count("ref:" + r.st)
        if r.st == RE.RANGE:
            return
    else:
        stats.count("incomplete-point")
        # range filter on the supplied part: evaluate with the missing coordinates set to 1 only to bound magnitudes
        full = dict(env)
        for v in vs:
            full.setdefault(v, 1)
        r2, _ = DV.value_context(m, full)
        if r2.st == RE.RANGE:
            stats.count("ref:range")
            return
    case = make_case(sub, m, env, info=info)
    where = f"{M.text(m)[:300]} at {M.point_text(env)}"
    buckets = {}

    def run(name, f):
        out = lib.call(f)
        stats.count("route-calls")
        c = classify(out)
        if c == "range":
            stats.count("lib-overflow")
            return out
        if c is not None:
            buckets.setdefault(c, (name, out))
        return out

    def run_at(name, expr):
        """Evaluates an expression the library returned; inf / nan there is out of scope when the returned expression's
        own exact intermediates leave the range (it is a different computation from the original's)."""
        out = lib.call(lambda: expr.at(lib.Point(**env)))
        stats.count("route-calls")
        c = classify(out)
        if c is None:
            return
        if c == "range":
            stats.count("lib-overflow")
            return
        if c.startswith("weird:float") and all(v in env for v in M.variables(to_model(expr))):
            rr, _ = RE.evaluate(to_model(expr), dict(env), lo=DV.LO, hi=DV.HI, const_ulps=2.0)
            if rr.st in (RE.RANGE, RE.UNDECIDED):
                stats.count("returned-expression-range-skip")
                return
        buckets.setdefault(c, (name, out))

    run("at(Point)", lambda: build(m).at(lib.Point(**env)))
    if len(vs) <= 1:
        number = env.get(vs[0], 1.5) if vs else 1.5
        run("at(number)", lambda: build(m).at(number))
    variables = (vs + ["absent"])[:3]
    for var in variables:
        # the derivative has intermediates of its own (products of local partials, reverse multipliers, the simplified
        # partial's sub-terms): if THEY leave the range, inf/nan/OverflowError from a derivative route is out of scope
        d_in_range = True
        if ctx is not None and r.st == RE.DEFINED:
            o = DV.oracle(m, env, var, ctx=ctx, r=r, reverse=True)
            d_in_range = o.st == "ok"
            if not d_in_range:
                stats.count("derivative-range-skip")
        for rt in DV.routes_for(m, var):
            if not symbolic and DV.family_of(rt) is not None:
                continue
            if not d_in_range:
                out = lib.call(lambda: DV.run_numeric(rt, m, env, var))
                c = classify(out)
                if c is not None and c != "range" and not c.startswith("weird:float"):
                    buckets.setdefault(c, (f"{rt}[{var}]", out))
                continue
            fam = DV.family_of(rt)
            out = lib.call(lambda: DV.run_numeric(rt, m, env, var))
            stats.count("route-calls")
            c = classify(out)
            if c == "range":
                stats.count("lib-overflow")
            elif c is not None:
                if fam is not None and c.startswith("weird:float") and DV.rounding_excuse(m, var, env, rt):
                    stats.count("simplified-partial-range-skip")      # the simplified partial's own intermediates leave the range
                else:
                    buckets.setdefault(c, (f"{rt}[{var}]", out))
        if symbolic:
            for rt in DV.symbolic_routes_for(m, var):
                out = run(f"{rt}[{var}]", lambda: DV.run_symbolic(rt, m, var))
                if out.kind == lib.EXPR:
                    run_at(f"{rt}[{var}].at", out.value)
    if symbolic:
        out = run("_normalize", lambda: build(m)._normalize())
        if out.kind == lib.EXPR:
            run_at("_normalize.at", out.value)
    if buckets:
        key = sorted(buckets)[0]
        name, out = buckets[key]
        raise violation(ID, sub, f"escape:{key}", case,
                        f"{where}: {name} gave {out!r}" + (f" (and {len(buckets) - 1} more bucket(s): {sorted(buckets)[1:4]})" if len(buckets) > 1 else ""))
    near = ctx is not None and (r.st == RE.UNDEF or any(d <= 2.0 ** -10 for _n, d in ctx.near))
    zero_mult = False
    if ctx is not None and r.st == RE.DEFINED:
        for x in M.subterms(m):
            if x[0] in ("Multiply", "Divide", "Power", "NthRoot"):
                for c in M.children(x):
                    rr = ctx.eval(c)
                    if rr.st == RE.DEFINED and rr.q is not None and rr.q == 0:
                        zero_mult = True
    for k, flag in (("boundary", near), ("missing-coordinate", incomplete), ("zero-operand", zero_mult)):
        if flag:
            stats.count("feature:" + k)
    if near or incomplete or zero_mult:
        stats.nontrivial_case(M.digest(M.canon(m), sorted(env.items())), describe(m, env, **{k: str(v) for k, v in (info or {}).items()}))


def make_general(stats):
    @given(st.data())
    def test(data):
        names = data.draw(S.name_lists(1, 4))
        m = data.draw(S.expressions(names, depth=3))
        env = data.draw(S.points(names))
        if data.draw(st.integers(0, 3)) == 0 and env:
            env.pop(data.draw(st.sampled_from(sorted(env))))
        check(stats, m, env)
    return test


def make_edges(stats):
    @given(st.data())
    def test(data):
        names = data.draw(S.name_lists(1, 3))
        if data.draw(st.booleans()):
            m, env, info = data.draw(BD.injected(names, depth=2))
        else:
            m, env, info = data.draw(BD.masked_cases(names, depth=1))
        for n in M.variables(m):
            env.setdefault(n, 1)
        if data.draw(st.integers(0, 5)) == 0 and env:
            env.pop(data.draw(st.sampled_from(sorted(env))))
        check(stats, m, env, sub="edges", info=info)
    return test


def make_zeros(stats):
    """Exact zeros and ones where derivative formulas divide, take logs or fractional powers."""
    @given(st.data())
    def test(data):
        names = data.draw(S.name_lists(1, 2))
        env = data.draw(S.exact_points(names))
        v = data.draw(st.sampled_from(names))
        z = ("Minus", ("Variable", v), ("Constant", env[v]))                 # exactly 0 at env
        one = ("Add", (z, ("Constant", 1)))                                   # exactly 1 at env
        neg = ("Add", (z, ("Constant", -8)))                                  # exactly -8 at env
        pieces = [("NthRoot", neg, 3), ("NthRoot", one, data.draw(st.sampled_from([2, 3, 4, 5]))), ("Power", one, z),
                  ("Power", one, ("Variable", v)), ("Multiply", (z, ("Variable", v), z)), ("Divide", z, one),
                  ("Logarithm", one, data.draw(st.sampled_from([2, 0.5, 10]))), ("Exponential", z, data.draw(st.sampled_from([0.5, 1, 2, 0.1]))),
                  ("NthPower", z, data.draw(st.sampled_from([1, 2, 3]))), ("Reciprocal", one), ("Power", ("Constant", 1), z),
                  ("Exponential", neg, 1), ("NthRoot", ("NthPower", neg, 3), 3), ("Divide", ("Constant", 0), neg)]
        k = data.draw(st.integers(1, 3))
        parts_ = [data.draw(st.sampled_from(pieces)) for _ in range(k)]
        m = parts_[0] if k == 1 else (data.draw(st.sampled_from(["Add", "Multiply"])), tuple(parts_))
        if data.draw(st.booleans()):
            m = (data.draw(st.sampled_from(["Sine", "Cosine", "Negation"])), m)
        check(stats, m, env, sub="zeros")
    return test


def make_names(stats):
    @given(st.data())
    def test(data):
        pool = data.draw(st.lists(S.legal_names(), min_size=1, max_size=3, unique=True))
        m = data.draw(S.trees(pool, depth=2))
        env = {n: data.draw(S.coordinate_values()) for n in pool}
        check(stats, m, env, sub="names")
    return test


def parts(tier):
    n = 8000 if tier == "quick" else 250000
    ps = [hyp_part("general", make_general, int(n * 0.4)), hyp_part("edges", make_edges, int(n * 0.3)),
          hyp_part("zeros", make_zeros, int(n * 0.2)), hyp_part("names", make_names, int(n * 0.1))]
    import os
    fz = int(os.environ.get("VERIF_FUZZ_RUNS", "0" if tier == "quick" else "64000"))
    if fz:
        ps.append(fuzz_part("fuzz-general", ID, "make_general", fz // 2))
        ps.append(fuzz_part("fuzz-edges", ID, "make_edges", fz // 2))
    return ps


def replay(case):
    check(Stats(), case_model(case), case_point(case), sub=case.get("sub", "escape"), info=case.get("info"))


def self_test(tier, agg):
    tot = {}
    for g in agg.values():
        for k, c in g["counters"].items():
            tot[k] = tot.get(k, 0) + c
    bad = []
    for k in ("feature:boundary", "feature:missing-coordinate", "feature:zero-operand"):
        if tot.get(k, 0) < 50:
            bad.append(f"C17: class {k} seen fewer than 50 times")
    return bad
