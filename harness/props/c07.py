"""C07 - derivative queries fail exactly where the expression itself is undefined."""
from __future__ import annotations
from hypothesis import given, strategies as st
from harness import strategies as S
from harness import boundary as BD
from harness import deriv as DV
from harness import findings
from .common import *

ID = "C07"
RULE = ("Masking contexts and boundary injection (>= 70 % of cases) plus general trees x every variable x complete "
        "points x all 14 numeric derivative routes (early and late).  Oracle: differential against Expression.at at the "
        "same point, restricted to points where the reference interpreter's domain decision is exact or has margin and "
        "agrees with at(): at() raises DomainError <=> every route raises DomainError; a route returning a number at an "
        "undefined point or raising at a defined point is a violation.  Non-trivial = the undefined sub-term sits in a "
        "masking context (cannot influence the derivative) or at depth >= 2, or the point is within 2^-10 of a boundary "
        "on the defined side; distinct by SHA-1 of (canonical model, point, variable).  Part 'sequence': one expression object "
        "with one derivative object per route queried at defined and undefined points in a row (boundary-injected "
        "expression, its boundary point plus generated points): DomainError exactly at the undefined points whatever was "
        "asked before; non-trivial there = the sequence contains both kinds of point.")
ASSUMPTIONS = [
    "whether at() itself is right is C02's business: cases where at() disagrees with the reference are counted and skipped here",
    "cases classified range/undecided by the reference are skipped",
    "KF1 failures (early routes raising on defined points) are attributed by suppressing exactly that rule instance in-process",
]


def check(stats, m, env, var, as_object=False, info=None, sub="domain"):
    m = safe(m)
    stats.case()
    info = info or {}
    r, ctx = DV.value_context(m, env)
    stats.count("ref:" + r.st)
    if r.st not in (RE.DEFINED, RE.UNDEF):
        return
    e = build(m)
    base = lib.call(lambda: e.at(lib.Point(**env)))
    expect = lib.DOM if r.st == RE.UNDEF else lib.NUM
    if base.kind != expect:
        stats.count("at-disagrees-with-reference")
        return
    if info.get("mask"):
        stats.count("mask:" + info["mask"] + ":" + r.st)
    routes = DV.routes_for(m, var)
    case = make_case(sub, m, env, var=var, as_object=as_object, info=info)
    where = f"d/d{var} of {M.text(m)[:300]} at {M.point_text(env)}"
    for rt in routes:
        out = lib.call(lambda: DV.run_numeric(rt, m, env, var, as_object))
        stats.count("route:" + rt)
        if out.kind == lib.OVF:
            stats.count("overflow-skip")
            continue
        if out.kind == expect:
            continue
        if expect == lib.NUM and out.kind == lib.DOM:
            def again():
                return lib.call(lambda: DV.run_numeric(rt, m, env, var, as_object)).kind == lib.DOM
            if DV.rounding_excuse(m, var, env, rt):
                stats.count("folded-constant-rounding-skip")
                continue
            if findings.attributable_to_kf1(ID, again):
                stats.known("KF1")
                continue
            raise violation(ID, sub, f"raises-on-defined:{rt}", case,
                            f"{where}: the expression is defined here (at() = {base.value!r}) but {rt} raised DomainError")
        if expect == lib.DOM:
            bad, reason = ctx.first_bad
            raise violation(ID, sub, f"answers-on-undefined:{rt}:{bad[0]}:{info.get('mask', '-')}", case,
                            f"{where}: at() raises DomainError ({reason} in {M.text(bad)[:100]}) but {rt} gave {out!r}")
        raise violation(ID, sub, f"other:{rt}:{out.kind}", case, f"{where}: at() = {base!r} but {rt} gave {out!r}")
    if r.st == RE.UNDEF:
        from .c02 import depth_of
        bad, _ = ctx.first_bad
        nt = info.get("mask", "plain") != "plain" or depth_of(m, bad) >= 2
    else:
        nt = any(dist <= 2.0 ** -10 for _n, dist in ctx.near)
        if nt:
            stats.count("defined-near-boundary")
    if nt:
        stats.nontrivial_case(M.digest(M.canon(m), sorted(env.items()), var),
                              describe(m, env, variable=var, expression_is=r.st, routes=len(routes),
                                       **{k: str(v) for k, v in info.items()}))


def complete(m, env):
    env = dict(env)
    for n in M.variables(m):
        env.setdefault(n, 1)
    return env


def make_masked(stats):
    @given(st.data())
    def test(data):
        names = data.draw(S.name_lists(0, 3))
        m, env, info = data.draw(BD.masked_cases(names, depth=2))
        pool = M.variables(m) or ["absent"]
        var = data.draw(st.sampled_from(pool + ["absent"]))
        check(stats, m, complete(m, env), var, data.draw(st.booleans()), info, sub="masked")
    return test


def make_boundary(stats):
    @given(st.data())
    def test(data):
        names = data.draw(S.name_lists(1, 3))
        m, env, info = data.draw(BD.injected(names, depth=2))
        pool = M.variables(m) or ["absent"]
        var = data.draw(st.sampled_from(pool + ["absent"]))
        check(stats, m, complete(m, env), var, data.draw(st.booleans()), info, sub="boundary")
    return test


def make_general(stats):
    @given(st.data())
    def test(data):
        names = data.draw(S.name_lists(1, 4))
        m = data.draw(S.expressions(names, depth=3))
        env = data.draw(S.points(names))
        var = data.draw(st.sampled_from(names + ["absent"]))
        check(stats, m, env, var, data.draw(st.booleans()), sub="general")
    return test


def make_roots(stats):
    @given(st.data())
    def test(data):
        names = data.draw(S.name_lists(1, 2))
        inner = data.draw(S.poly_trees(names, depth=2, tags=S.POLY_TAGS))
        n1, n2 = data.draw(st.sampled_from([2, 3, 4, 6, 5])), data.draw(st.sampled_from([2, 3, 4, 6, 5]))
        k = data.draw(st.integers(0, 4))
        m = [("NthRoot", ("NthPower", inner, n1), n2), ("NthPower", ("NthRoot", inner, n1), n2),
             ("Logarithm", ("NthPower", inner, n1), 2), ("Multiply", (("NthRoot", inner, n1), ("NthRoot", inner, n1))),
             ("Add", (("Logarithm", inner, 2), ("Logarithm", ("Negation", inner), 2), ("Logarithm", ("NthPower", inner, 2), 2)))][k]
        env = data.draw(S.exact_points(names))
        check(stats, m, env, data.draw(st.sampled_from(names)), sub="roots")
    return test


SEQ_ROUTES = ["Partial.at/late", "Partial.at/early", "Differential.component_at/late", "Differential.at.component/early",
              "LocatedDifferential.component", "at"]


def run_sequence(m, envs, steps, var):
    """ONE expression object and one derivative object per route, all built on it; the queries of `steps` in a row."""
    e = build(m)
    objs = {}

    def obj(rt, make):
        if rt not in objs:
            objs[rt] = make()
        return objs[rt]
    outs = []
    for rt, i in steps:
        P = lib.Point(**envs[i])
        if rt == "at":
            outs.append(lib.call(lambda: e.at(P)))
        elif rt == "Partial.at/late":
            outs.append(lib.call(lambda: obj(rt, lambda: lib.Partial(e, var, compute_early=False)).at(P)))
        elif rt == "Partial.at/early":
            outs.append(lib.call(lambda: obj(rt, lambda: lib.Partial(e, var, compute_early=True)).at(P)))
        elif rt == "Differential.component_at/late":
            outs.append(lib.call(lambda: obj(rt, lambda: lib.Differential(e, compute_early=False)).component_at(var, P)))
        elif rt == "Differential.at.component/early":
            outs.append(lib.call(lambda: obj(rt, lambda: lib.Differential(e, compute_early=True)).at(P).component(var)))
        elif rt == "LocatedDifferential.component":
            outs.append(lib.call(lambda: lib.LocatedDifferential(e, P).component(var)))
        else:
            raise HarnessError(f"unknown sequence route {rt}")
    return outs


def check_sequence(stats, m, envs, steps, var, sub="sequence"):
    """The same objects queried at defined and undefined points in a row: DomainError exactly at the undefined ones,
    whatever was asked before (a failed query must not poison the next one, a successful one must not mask a failure)."""
    m = safe(m)
    stats.case()
    expect = []
    for env in envs:
        r, _ctx = DV.value_context(m, env)
        if r.st not in (RE.DEFINED, RE.UNDEF):
            stats.count("sequence-undecided-point")
            return
        want = lib.DOM if r.st == RE.UNDEF else lib.NUM
        if lib.call(lambda: build(m).at(lib.Point(**env))).kind != want:
            stats.count("at-disagrees-with-reference")
            return
        expect.append(want)
    outs = run_sequence(m, envs, steps, var)
    trail = []
    for k, ((rt, i), out) in enumerate(zip(steps, outs)):
        trail.append(f"{rt} at {M.point_text(envs[i])} -> {out!r}")
        if out.kind == lib.OVF or out.kind == expect[i]:
            continue
        case = make_case(sub, m, None, var=var, points=[M.point_to_json(x) for x in envs], steps=[list(x) for x in steps[:k + 1]])
        where = f"d/d{var} of {M.text(m)[:250]}, one object, queries in a row: {'; '.join(trail)[-900:]}"
        if expect[i] == lib.NUM and out.kind == lib.DOM and rt != "at":
            if DV.rounding_excuse(m, var, envs[i], rt):
                stats.count("folded-constant-rounding-skip")
                continue

            def again():
                return run_sequence(m, envs, steps[:k + 1], var)[k].kind == lib.DOM
            if findings.attributable_to_kf1(ID, again):
                stats.known("KF1")
                continue
            raise violation(ID, sub, f"sequence-raises-on-defined:{rt}", case, f"{where}: the expression is defined at the last point")
        if expect[i] == lib.DOM:
            raise violation(ID, sub, f"sequence-answers-on-undefined:{rt}", case, f"{where}: the expression is undefined at the last point")
        raise violation(ID, sub, f"sequence-other:{rt}:{out.kind}", case, f"{where}: expected {expect[i]}")
    kinds = [expect[i] for _rt, i in steps]
    stats.count("sequence-queries", len(steps))
    if lib.DOM in kinds and lib.NUM in kinds:
        stats.count("sequence-mixed")
        stats.nontrivial_case(M.digest(M.canon(m), [sorted(x.items()) for x in envs], [list(x) for x in steps], var),
                              {"expr": M.text(m)[:300], "variable": var, "sequence": trail[:6]})


def make_sequence(stats):
    @given(st.data())
    def test(data):
        names = data.draw(S.name_lists(1, 3))
        if data.draw(st.integers(0, 3)) == 0:
            m, env, _info = data.draw(BD.injected(names, depth=2))
        else:
            # a constrained node whose argument depends on the variables and sits exactly on the undefined side of its
            # boundary at env (and, being a shifted polynomial, almost surely on the defined side at the other points)
            m0 = data.draw(S.trees(names, depth=2))
            env = data.draw(S.exact_points(names))
            kind = data.draw(st.sampled_from(BD.KINDS))
            b = 0 if kind in ("Reciprocal", "Divide", "NthRootOdd") else data.draw(st.sampled_from([0, -1, -(2.0 ** -10), -2.5]))
            v = ("Variable", data.draw(st.sampled_from(names)))
            poly = data.draw(st.sampled_from([v, ("NthPower", v, 2), ("Multiply", (v, v, v))]))
            if data.draw(st.booleans()):
                poly = ("Add", (poly, data.draw(S.poly_trees(names, depth=1))))
            arg = BD.shifted(poly, env, b) or ("Add", (("Minus", v, ("Constant", env[v[1]])), ("Constant", b)))
            node = data.draw(BD.constrained(names, arg, kind))
            m = M.replace(m0, data.draw(st.sampled_from(M.paths(m0, limit=60))), node)
        envs = [complete(m, env)] + [complete(m, data.draw(S.points(names, extra=False))) for _ in range(data.draw(st.integers(1, 2)))]
        envs = data.draw(st.permutations(envs))
        pool = M.variables(m) or ["absent"]
        var = data.draw(st.sampled_from(pool + ["absent"]))
        steps = data.draw(st.lists(st.tuples(st.sampled_from(SEQ_ROUTES), st.integers(0, len(envs) - 1)), min_size=2, max_size=7))
        check_sequence(stats, m, list(envs), [tuple(x) for x in steps], var)
    return test


def parts(tier):
    n = 10000 if tier == "quick" else 200000
    return [hyp_part("masked", make_masked, int(n * 0.35)), hyp_part("boundary", make_boundary, int(n * 0.25)),
            hyp_part("general", make_general, int(n * 0.15)), hyp_part("roots", make_roots, int(n * 0.1)),
            hyp_part("sequence", make_sequence, int(n * 0.15))]


def replay(case):
    if case.get("sub") == "sequence":
        check_sequence(Stats(), case_model(case), [M.point_from_json(x) for x in case["points"]],
                       [tuple(x) for x in case["steps"]], case["var"])
        return
    check(Stats(), case_model(case), case_point(case), case["var"], case.get("as_object", False), case.get("info"),
          sub=case.get("sub", "domain"))


def self_test(tier, agg):
    tot = {}
    for g in agg.values():
        for k, c in g["counters"].items():
            tot[k] = tot.get(k, 0) + c
    bad = []
    for mask in BD.MASKS:
        if tot.get(f"mask:{mask}:undefined", 0) < 5:
            bad.append(f"C07: masking context {mask} produced < 5 decided-undefined cases")
    for name, _e, _s in DV.NUMERIC_ROUTES:
        if tot.get("route:" + name, 0) < 50:
            bad.append(f"C07: route {name} exercised fewer than 50 times")
    if tot.get("defined-near-boundary", 0) < 50:
        bad.append("C07: fewer than 50 defined cases next to a boundary")
    return bad
