"""C01 - evaluation returns the real-arithmetic value of the expression."""
from __future__ import annotations
from fractions import Fraction
from hypothesis import given, strategies as st
from harness import strategies as S
from .common import *

ID = "C01"
RULE = ("Hypothesis-generated expression models (trees over all 15 constructors, let-list DAGs with shared "
        "objects, unary chains up to depth 40, n-ary nodes up to arity 12, exact polynomial/dyadic trees) x "
        "generated finite points, as Point and as bare number, plus the same object evaluated at 2-4 points in a row; oracle = independent 50-digit mpmath "
        "interpreter with exact-Fraction track and running error bound.  Non-trivial = reference says "
        "DEFINED and in range AND (depth >= 4 or a shared non-leaf node or an n-ary arity not in {2,3} or "
        "n >= 4 or a base other than e/2); distinct by SHA-1 of (canonical model, point).  Part 'subnormal' (shared with C02): "
        "+ - * / trees at coordinates k*2^e, e in [-1074,-1000], exact rational oracle, decided only when every exact "
        "intermediate is exactly a double; non-trivial there = a non-zero subnormal denominator.")
ASSUMPTIONS = [
    "mpmath at 50 digits is the real-arithmetic ground truth",
    "IEEE-754 double semantics of CPython on this platform; libm functions within a few ulp",
    "cases with an exact intermediate outside [1e-100,1e100] ([1e-290,1e290] in the extreme part) are skipped (counted as range)",
    "exactness is asserted only where IEEE-754 makes exact intermediates imply an exact result "
    "(ring operations, division, integer powers, n in {1,2} roots, integer exponents)",
]


def check(stats, m, env, bare=False, sub="value", wide=False):
    stats.case()
    r, ctx = RE.evaluate(m, env, lo=1e-290, hi=1e290) if wide else RE.evaluate(m, env)
    stats.count("ref:" + r.st)
    if r.st != RE.DEFINED:
        return
    e = build(m)
    out = lib.call(lambda: e.at(lib.Point(**env)))
    case = make_case(sub, m, env)
    if out.kind != lib.NUM:
        raise violation(ID, sub, f"no-number:{out.kind}:{m[0]}", case,
                        f"{M.text(m)[:300]} at {M.point_text(env)}: reference value {r.v}, library gave {out!r}")
    val = out.value
    if r.q is not None:
        stats.count("exact-track")
        if Fraction(val) != r.q:
            raise violation(ID, sub, f"inexact:{m[0]}", case,
                            f"{M.text(m)[:300]} at {M.point_text(env)}: every intermediate is exact, expected "
                            f"exactly {r.q} but got {val!r}")
    else:
        if ill_conditioned(r.eps, r.v):
            stats.count("ill-conditioned")
        else:
            ok, ratio = within(val, r.v, r.eps)
            stats.ratio(ratio if ratio != float("inf") else 1e9, M.text(m)[:200] + " @ " + M.point_text(env))
            if not ok:
                raise violation(ID, sub, f"value:{m[0]}", case,
                                f"{M.text(m)[:300]} at {M.point_text(env)}: expected {r.v} (bound {r.eps:.3g}), "
                                f"got {val!r}; error/bound = {ratio:.3g}")
    vs = M.variables(m)
    if bare and len(vs) <= 1:
        stats.count("bare-number")
        number = env[vs[0]] if vs else 1.5
        e2 = build(m)
        o1 = lib.call(lambda: e2.at(number))
        e3 = build(m)
        o2 = lib.call(lambda: e3.at(lib.Point(**({vs[0]: number} if vs else {}))))
        if o1.key() != o2.key():
            raise violation(ID, "bare", f"bare:{m[0]}", make_case("bare", m, env),
                            f"{M.text(m)[:300]}: at({number!r}) gave {o1!r} but at(Point) gave {o2!r}")
    if nontrivial_shape(m):
        stats.nontrivial_case(M.digest(M.canon(m), sorted(env.items())), describe(m, env, value=repr(val)))


def check_sequence(stats, m, envs, sub="sequence"):
    """The SAME expression object evaluated at several points in a row (ordinary use): every answer must be
    the reference's for that point, whatever happened at the earlier points (including failures)."""
    stats.case()
    e = build(m)
    trail = []
    for k, env in enumerate(envs):
        r, _ = RE.evaluate(m, env)
        out = lib.call(lambda: e.at(lib.Point(**env)))
        trail.append(f"{M.point_text(env)} -> {out!r}")
        if r.st != RE.DEFINED or out.kind == lib.OVF:
            continue
        case = make_case(sub, m, None, points=[M.point_to_json(x) for x in envs[:k + 1]])
        where = f"{M.text(m)[:250]}: evaluations in a row on one object: {'; '.join(trail)}"
        if out.kind != lib.NUM:
            raise violation(ID, sub, f"sequence-no-number:{out.kind}", case, f"{where}: reference value at the last point is {r.v}")
        if r.q is not None:
            if Fraction(out.value) != r.q:
                raise violation(ID, sub, "sequence-inexact", case, f"{where}: expected exactly {r.q} at the last point")
        elif not ill_conditioned(r.eps, r.v):
            ok, ratio = within(out.value, r.v, r.eps)
            if not ok:
                raise violation(ID, sub, "sequence-value", case, f"{where}: expected {r.v} at the last point (error/bound {ratio:.3g})")
        stats.count("sequence-evaluations")
    if len(envs) >= 2:
        stats.nontrivial_case(M.digest(M.canon(m), [sorted(x.items()) for x in envs]), {"expr": M.text(m)[:300], "sequence": trail[:4]})


def make_sequence(stats):
    @given(st.data())
    def test(data):
        names = data.draw(S.name_lists(1, 3))
        m = data.draw(S.expressions(names, depth=3))
        envs = [data.draw(S.points(names)) for _ in range(data.draw(st.integers(2, 4)))]
        check_sequence(stats, m, envs)
    return test


def make_general(stats):
    @given(st.data())
    def test(data):
        names = data.draw(S.name_lists())
        m = data.draw(S.expressions(names))
        env = data.draw(S.points(names))
        check(stats, m, env, bare=data.draw(st.booleans()))
    return test


def make_extreme(stats):
    """Magnitudes up to 1e+-250: inside the double range, far outside what ordinary tests use."""
    @given(st.data())
    def test(data):
        names = data.draw(S.name_lists(1, 2))
        m = data.draw(S.trees(names, depth=2, leaf=S.extreme_leaves(names)))
        env = {n: data.draw(S.extreme_values()) for n in names}
        check(stats, m, env, bare=False, sub="extreme", wide=True)
    return test


def make_exact(stats):
    @given(st.data())
    def test(data):
        names = data.draw(S.name_lists(1, 3))
        kind = data.draw(st.integers(0, 2))
        if kind == 0:
            m = data.draw(S.poly_trees(names, depth=4, tags=S.POLY_TAGS))
        elif kind == 1:
            m = data.draw(S.poly_trees(names, depth=3, tags=S.RATIONAL_TAGS))
        else:
            m = data.draw(S.poly_trees(names, depth=3, tags=S.RATIONAL_TAGS))
            w = data.draw(st.integers(0, 3))
            if w == 0:
                m = ("NthRoot", ("NthPower", m, 2), 2)
            elif w == 1:
                m = ("Power", ("Add", (("NthPower", m, 2), ("Constant", data.draw(st.sampled_from([1, 2, 0.5, 4]))))),
                     ("Constant", data.draw(st.integers(-2, 3))))
            elif w == 2:
                m = ("Exponential", data.draw(S.poly_trees(names, depth=2, tags=S.POLY_TAGS, leaf=S.int_leaves(names))),
                     data.draw(st.sampled_from([2, 0.5, 4, 2.0, 1, 10])))
            else:
                m = ("Add", (("Cosine", ("Minus", m, m)), ("Sine", ("Constant", 0)), ("NthRoot", m, 1)))
        env = data.draw(S.exact_points(names))
        check(stats, m, env, bare=True, sub="exact")
    return test


def make_subnormal(stats):
    """The bottom of the double range (2^-1074 .. 2^-1000): trees over + - * / whose every exact intermediate is exactly a
    double (own exact rational evaluator, shared with C02): the value must be exactly that rational."""
    from . import c02
    return c02.make_tiny(stats, prop=ID)


def parts(tier):
    n = 20000 if tier == "quick" else 400000
    return [hyp_part("general", make_general, int(n * 0.55)), hyp_part("exact", make_exact, int(n * 0.25)),
            hyp_part("sequence", make_sequence, int(n * 0.15)), hyp_part("extreme", make_extreme, int(n * 0.1)),
            hyp_part("subnormal", make_subnormal, int(n * 0.1))]


def replay(case):
    if case.get("sub") == "subnormal":
        from . import c02
        c02.check_tiny(Stats(), case_model(case), case_point(case), prop=ID)
        return
    if case.get("sub") == "sequence":
        check_sequence(Stats(), case_model(case), [M.point_from_json(p) for p in case["points"]])
        return
    check(Stats(), case_model(case), case_point(case), bare=True, sub=case.get("sub", "value"), wide=case.get("sub") == "extreme")


def self_test(tier, agg):
    bad = []
    g = agg.get("general", {})
    c = g.get("counters", {})
    if c.get("ref:defined", 0) < 0.15 * max(1, g.get("evaluations", 0)):
        bad.append("C01 general: fewer than 15% of generated cases are defined")
    if agg.get("exact", {}).get("counters", {}).get("exact-track", 0) < 100:
        bad.append("C01 exact: exact track starved")
    return bad
