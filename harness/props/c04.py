"""C04 - reverse-mode gradient equals the true partials for every variable at once."""
from __future__ import annotations
from fractions import Fraction
from hypothesis import given, strategies as st
from harness import strategies as S
from harness import deriv as DV
from .common import *
from . import c03

ID = "C04"
RULE = ("DAG-heavy generated expressions (let-lists with shared objects, repeated variables, products with exact-zero "
        "factors) over 1-5 variables x generated domain points; LocatedDifferential(e,p).component(v) and "
        "Differential(e).at(p).component(v) for every variable of the pool plus an absent one, given as Variable or "
        "str.  Oracle = independent mpmath forward-mode AD per variable (cross-checked against a reference reverse "
        "sweep and central differences); exact on the polynomial fragment.  Non-trivial = gradient decided AND (some "
        "variable occurs >= 2 times, or a shared non-leaf node, or a product of >= 3 factors containing an exact zero "
        "factor); distinct by SHA-1 of (canonical model, point).  Part 'sequence': one expression object (and one late "
        "Differential on it) asked for its gradient at several points in a row, plain evaluations and repeated points in "
        "between; non-trivial there = at least two answered gradients.")
ASSUMPTIONS = c03.ASSUMPTIONS + ["reverse multipliers (d root / d node) restricted to [1e-150,1e150] in magnitude"]

ROUTES = ["LocatedDifferential.component", "Differential.at.component/late"]


def zero_factor_product(m, ctx):
    for x in M.subterms(m):
        if x[0] == "Multiply" and len(x[1]) >= 3:
            for c in x[1]:
                r = ctx.eval(c)
                if r.st == RE.DEFINED and r.q is not None and r.q == 0:
                    return True
    return False


def check(stats, m, env, query, as_object=False, selfcheck=False, sub="reverse"):
    m = safe(m)
    stats.case()
    r, ctx = DV.value_context(m, env)
    stats.count("ref:" + r.st)
    if r.st != RE.DEFINED:
        return
    oracles = {}
    for v in query:
        o = DV.oracle(m, env, v, ctx=ctx, r=r, reverse=True, selfcheck=selfcheck)
        if o.st != "ok":
            stats.count("oracle:" + o.st)
            return
        oracles[v] = o
    stats.count("oracle:ok")
    case = make_case(sub, m, env, query=list(query), as_object=as_object)
    P = lib.Point(**env)
    for route in ROUTES:
        e = build(m)
        if route == "LocatedDifferential.component":
            obj = lib.call(lambda: lib.LocatedDifferential(e, P))
        else:
            obj = lib.call(lambda: lib.Differential(e).at(P))
        if obj.kind != lib.OBJ:
            raise violation(ID, sub, f"no-object:{obj.kind}:{route}", case,
                            f"{M.text(m)[:300]} at {M.point_text(env)}: defined (value {r.v}) but {route} gave {obj!r}")
        ld = obj.value
        for v in query:
            out = lib.call(lambda: ld.component(DV.var_arg(v, as_object)))
            c03.compare(stats, oracles[v], out, m, env, v, route, case, sub, prop=ID)
    vs = M.variables(m)
    feats = set()
    occ = {}

    def go(x):
        if x[0] == "Variable":
            occ[x[1]] = occ.get(x[1], 0) + 1
        for c in M.children(x):
            go(c)
    if M.size(m) <= 600:
        go(m)
    if any(c >= 2 for c in occ.values()):
        feats.add("repeated-variable")
    if M.shared_nodes(m) > 0:
        feats.add("shared-node")
    if zero_factor_product(m, ctx):
        feats.add("zero-factor-product")
    for f in feats:
        stats.count("feature:" + f)
    stats.count(f"variables:{len(vs)}")
    if feats:
        stats.nontrivial_case(M.digest(M.canon(m), sorted(env.items())),
                              describe(m, env, gradient={v: str(o.D)[:20] for v, o in oracles.items()}, features=sorted(feats)))


def make_dag(stats):
    @given(st.data())
    def test(data):
        names = data.draw(S.name_lists(2, 5))
        m = data.draw(S.dags(names, max_defs=5, depth=2, const_bias=2))
        if data.draw(st.booleans()):
            c = data.draw(S.covering(names, depth=1))
            m = (data.draw(st.sampled_from(["Add", "Multiply"])), (m, c, m)) if data.draw(st.booleans()) else ("Divide", c, m)
        env = data.draw(S.points(names))
        check(stats, m, env, names + ["absent"], as_object=data.draw(st.booleans()),
              selfcheck=data.draw(st.integers(0, 9)) == 0)
    return test


@st.composite
def zero_products(draw, names):
    """Products of >= 3 factors some of which are exactly zero at the point, nested in a tree."""
    env = draw(S.exact_points(names))
    k = draw(st.integers(3, 5))
    factors = []
    for _ in range(k):
        w = draw(st.integers(0, 3))
        if w == 0:
            v = draw(st.sampled_from(names))
            factors.append(("Minus", ("Variable", v), ("Constant", env[v])))      # exactly zero at env
        elif w == 1:
            factors.append(("Constant", draw(st.sampled_from([0, 0.0, 2, -1]))))
        else:
            factors.append(draw(S.poly_trees(names, depth=2)))
    prod = ("Multiply", tuple(factors))
    outer = draw(S.trees(names, depth=2, tags=("Add", "Multiply", "Minus", "Negation", "NthPower", "Sine", "Exponential")))
    ps = M.paths(outer, limit=50)
    return M.replace(outer, draw(st.sampled_from(ps)), prod), env


def make_zero(stats):
    @given(st.data())
    def test(data):
        names = data.draw(S.name_lists(1, 4))
        m, env = data.draw(zero_products(names))
        check(stats, m, env, names + ["absent"], as_object=data.draw(st.booleans()), sub="zero-factor")
    return test


def make_general(stats):
    @given(st.data())
    def test(data):
        names = data.draw(S.name_lists())
        m = data.draw(S.expressions(names, depth=3))
        env = data.draw(S.points(names))
        check(stats, m, env, names + ["absent"], as_object=data.draw(st.booleans()),
              selfcheck=data.draw(st.integers(0, 9)) == 0, sub="general")
    return test


def make_exact(stats):
    @given(st.data())
    def test(data):
        names = data.draw(S.name_lists(1, 4))
        m = data.draw(S.dags(names, max_defs=4, depth=2, tags=S.POLY_TAGS))
        env = data.draw(S.exact_points(names))
        check(stats, m, env, names, sub="exact")
    return test


def check_sequence(stats, m, envs, steps, query, sub="sequence"):
    """ONE expression object (and one late Differential object on it) asked for its gradient at several points in a
    row - LocatedDifferential(e, p), Differential(e).at(p), plain evaluations in between, repeated points: every
    gradient must be the true one for its own point."""
    m = safe(m)
    stats.case()
    e = build(m)
    d = lib.Differential(e)
    trail = []
    answered = 0
    for k, (kind, i) in enumerate(steps):
        env = envs[i]
        P = lib.Point(**env)
        if kind == "eval":
            trail.append(f"e.at({M.point_text(env)}) -> {lib.call(lambda: e.at(P))!r}")
            continue
        r, ctx = DV.value_context(m, env)
        route = "LocatedDifferential.component" if kind == "located" else "Differential.at.component/late"
        obj = lib.call((lambda: lib.LocatedDifferential(e, P)) if kind == "located" else (lambda: d.at(P)))
        trail.append(f"{route.split('.')[0]} at {M.point_text(env)} -> {obj.kind}")
        if r.st != RE.DEFINED:
            continue
        oracles = {}
        for v in query:
            o = DV.oracle(m, env, v, ctx=ctx, r=r, reverse=True)
            if o.st != "ok":
                oracles = None
                break
            oracles[v] = o
        if oracles is None or obj.kind == lib.OVF:
            continue
        case = make_case(sub, m, None, query=list(query), points=[M.point_to_json(x) for x in envs], steps=[list(x) for x in steps[:k + 1]])
        note = f" on one object after [{'; '.join(trail[:-1])[-600:]}]" if trail[:-1] else " (first query on the object)"
        if obj.kind != lib.OBJ:
            raise violation(ID, sub, f"no-object:{obj.kind}:{route}", case,
                            f"{M.text(m)[:300]} at {M.point_text(env)}: defined (value {r.v}) but {route} gave {obj!r}{note}")
        for v in query:
            out = lib.call(lambda: obj.value.component(v))
            c03.compare(stats, oracles[v], out, m, env, v, route, case, sub, prop=ID, note=note)
        answered += 1
        stats.count("sequence-gradients")
    if answered >= 2:
        stats.nontrivial_case(M.digest(M.canon(m), [sorted(x.items()) for x in envs], [list(x) for x in steps]),
                              {"expr": M.text(m)[:300], "sequence": trail[:6]})


def make_sequence(stats):
    @given(st.data())
    def test(data):
        names = data.draw(S.name_lists(1, 3))
        w = data.draw(st.integers(0, 2))
        if w == 0:
            m = data.draw(S.dags(names, max_defs=4, depth=2, tags=S.POLY_TAGS))
            envs = [data.draw(S.exact_points(names)) for _ in range(data.draw(st.integers(2, 3)))]
        elif w == 1:
            m = data.draw(S.dags(names, max_defs=4, depth=2, const_bias=2))
            envs = [data.draw(S.points(names, extra=False)) for _ in range(data.draw(st.integers(2, 3)))]
        else:
            m = data.draw(S.expressions(names, depth=3))
            envs = [data.draw(S.points(names, extra=False)) for _ in range(data.draw(st.integers(2, 3)))]
        steps = data.draw(st.lists(st.tuples(st.sampled_from(["located", "located", "differential", "eval"]),
                                             st.integers(0, len(envs) - 1)), min_size=2, max_size=6))
        check_sequence(stats, m, envs, [tuple(x) for x in steps], names + ["absent"])
    return test


def parts(tier):
    n = 15000 if tier == "quick" else 300000
    return [hyp_part("dag", make_dag, int(n * 0.35)), hyp_part("zero-factor", make_zero, int(n * 0.2)),
            hyp_part("general", make_general, int(n * 0.15)), hyp_part("exact", make_exact, int(n * 0.15)),
            hyp_part("sequence", make_sequence, int(n * 0.15))]


def replay(case):
    if case.get("sub") == "sequence":
        check_sequence(Stats(), case_model(case), [M.point_from_json(x) for x in case["points"]],
                       [tuple(x) for x in case["steps"]], case["query"])
        return
    check(Stats(), case_model(case), case_point(case), case["query"], case.get("as_object", False), selfcheck=True,
          sub=case.get("sub", "reverse"))


def self_test(tier, agg):
    tot = {}
    for g in agg.values():
        for k, c in g["counters"].items():
            tot[k] = tot.get(k, 0) + c
    bad = []
    for f in ("repeated-variable", "shared-node", "zero-factor-product"):
        if tot.get("feature:" + f, 0) < 50:
            bad.append(f"C04: feature {f} seen fewer than 50 times")
    if tot.get("exact-track", 0) < 100:
        bad.append("C04: exact track starved")
    return bad
