"""C08 - simplification preserves meaning and never shrinks the domain."""
from __future__ import annotations
import os
from fractions import Fraction
from hypothesis import given, strategies as st
from harness import strategies as S
from harness import redex as RX
from harness import trace as T
from harness import findings, known
from .common import *

ID = "C08"
RULE = ("Inputs: one template per rewrite rule (51 templates: each rule's left-hand side with generated sub-trees in the "
        "holes, all parameter relations m=n / gcd>1 / coprime / parities / equal-different bases / base 1 / base e, "
        "every (parent, child, argument position) pair of the 13 non-leaf constructors with sign-varied holes, "
        "generated positions inside n-ary nodes and inside generated contexts, pairs of interacting redexes), random "
        "EXHAUSTIVELY all depth-3 skeletons that C11 enumerates (at four fixed points with both signs), random "
        "trees/DAGs, raw symbolic partials of random trees (forward and reverse), and 300-900 node inputs that exhaust "
        "the 1000-step budget.  The harness drives _take_reduction_step itself and checks EVERY step e_k -> e_k+1, the "
        "normal-form pass and the end-to-end _normalize() at 4 generated points: reference(e_k) DEFINED => "
        "reference(e_k+1) DEFINED and |v_k - v_k+1| <= 8(eps_k + eps_k+1) (50-digit values); rational-function steps "
        "with exact constants: exact Fraction equality at 4 generated rational points.  Non-trivial = a step in which a "
        "rule or constant fold fired (structure changed); distinct by SHA-1 of (canonical redex, canonical result).")
ASSUMPTIONS = [
    "private entry points _take_reduction_step / _is_fully_reduced / _normalize_fully_reduced / _normalize (used by the repository's own tests) exist",
    "a folded constant differs from the folded sub-tree's true value by at most 8 x that sub-tree's rounding bound (C01)",
    "steps after which the reference classifies the result as range/undecided are skipped and counted",
    "KF1: a failing step whose redex is NthRoot(NthPower(., even), even) is the listed finding; end-to-end failures are attributed by suppressing exactly that rule instance",
]

NPOINTS = 4
EXHAUSTIVE_PARTS = ["skeletons (same enumeration as C11: complete for unary chains, unary parents and 3-ary nodes; binary parents 1/16 slice in the quick tier, complete in the thorough tier)"]


def rationals():
    return st.builds(Fraction, st.integers(-2 ** 16, 2 ** 16), st.sampled_from([1, 3, 7, 11, 13, 97, 101]))


def constants_exact(sm):
    for x in M.subterms(sm):
        if x[0] == "Constant":
            fr = Fraction(x[1])
            if fr.denominator > 2 ** 20 or abs(fr.numerator) > 2 ** 40:
                return False
    return True


def compare(prev, cur):
    """None if the step is fine at this point, 'skip', or a message."""
    if prev.st != RE.DEFINED:
        return None
    if cur.st == RE.UNDEF:
        return f"input is defined (value {prev.v}) but the result is undefined: {cur.why}"
    if cur.st != RE.DEFINED:
        return "skip"
    err = abs(prev.v - cur.v)
    if err == 0:
        return None
    bound = TOL * (prev.eps + cur.eps) + TINY
    if err > bound:
        return f"value changed from {prev.v} to {cur.v} (allowed {bound:.3g})"
    return None


def check_models(stats, a, b, ctxs, rat_points, case, what, m0, allow_kf1_redex=True, fired=None):
    """One rewrite a -> b (models) at all points.  Raises Violation unless it is the listed finding."""
    path, ra, rb = T.diff(a, b)
    changed = ra is not rb and M.canon(ra) != M.canon(rb)
    if not changed:
        return False
    sig = T.signature(ra, rb)
    stats.count("rewrite:" + sig.split(" => ")[0].split("(")[0])
    kf1 = allow_kf1_redex and T.is_kf1_redex(ra) and known.listed(ID, "KF1")
    for env, ctx in ctxs:
        msg = compare(ctx.eval(a), ctx.eval(b))
        if msg == "skip":
            stats.count("step-range-or-undecided")
            continue
        if msg is not None:
            if kf1:
                stats.known("KF1")
                break
            c2 = dict(case)
            c2["failing_step"] = {"what": what, "redex": M.text(ra)[:300], "result": M.text(rb)[:300], "point": M.point_text(env)}
            raise violation(ID, what, f"{what}:{sig}", c2,
                            f"{what} of {M.text(m0)[:200]}: rewrite {M.text(ra)[:200]}  =>  {M.text(rb)[:200]} at "
                            f"{M.point_text(env)}: {msg}")
    # exact identity is demanded of purely structural rewrites only: constant folding and constant
    # consolidation do double arithmetic, whose rounding the property explicitly allows
    structural = bool(fired) and not any("consolidating_constants" in f for f in fired)
    if rat_points and not kf1 and structural and RE.is_rational_fragment(a) and RE.is_rational_fragment(b) \
            and constants_exact(a) and constants_exact(b):
        for rp in rat_points:
            try:
                va = RE.frac_eval(a, rp)
            except RE.FracUndefined:
                continue
            try:
                vb = RE.frac_eval(b, rp)
            except RE.FracUndefined:
                vb = None
            if va != vb:
                c2 = dict(case)
                c2["failing_step"] = {"what": what, "redex": M.text(ra)[:300], "result": M.text(rb)[:300]}
                raise violation(ID, "identity", f"identity:{sig}", c2,
                                f"{what} of {M.text(m0)[:200]}: rewrite {M.text(ra)[:200]}  =>  {M.text(rb)[:200]} is not an "
                                f"identity of rational functions: at {rp} the value goes from {va} to {vb}")
        stats.count("identity-steps")
    stats.nontrivial_case(M.digest(M.canon(ra), M.canon(rb)), {"rewrite": f"{M.text(ra)[:200]}  =>  {M.text(rb)[:200]}"})
    return True


def end_to_end_failure(m, envs, via):
    """Message or None: fresh copy, library's own _normalize() (or the public as_expression path)."""
    e = build(m)
    out = lib.call(lambda: e._normalize())
    if out.kind == lib.OVF:
        return None
    if out.kind != lib.EXPR:
        return f"_normalize() gave {out!r}"
    nm = to_model(out.value)
    for env in envs:
        r0, _ = RE.evaluate(m, env, keep_eps=True)
        if r0.st != RE.DEFINED:
            continue
        r1n, _ = RE.evaluate(nm, env, keep_eps=True)
        r1, _ = RE.evaluate(nm, env)
        msg = compare(r0, r1n)
        if msg not in (None, "skip"):
            return f"_normalize() = {M.text(nm)[:200]} at {M.point_text(env)}: {msg}"
        if msg is None:
            got = lib.call(lambda: out.value.at(lib.Point(**env)))
            if got.kind == lib.DOM:
                r2, _ = RE.evaluate(nm, env, const_ulps=2.0)
                if r2.st == RE.DEFINED:
                    return f"_normalize() = {M.text(nm)[:200]} raises DomainError at {M.point_text(env)} where the input has value {r0.v}"
            elif got.kind == lib.NUM and r1.st == RE.DEFINED and not ill_conditioned(r1.eps, r1.v):
                ok, ratio = within(got.value, r1.v, r1.eps)
                if not ok:
                    return f"_normalize() = {M.text(nm)[:200]} evaluates to {got.value!r} at {M.point_text(env)}, reference {r1.v}"
    return None


def check(stats, m, envs, rat_points=None, template=None, sub="steps", limit=1500, end_to_end=True):
    m = safe(m)
    stats.case()
    T.install_spy()
    if template:
        for tn in template.split("+"):
            stats.count("template:" + tn)
    case = make_case(sub, m, None, points=[M.point_to_json(e) for e in envs], template=template,
                     rat_points=[[[k, str(v)] for k, v in rp.items()] for rp in (rat_points or [])])
    e = build(m)
    memo = {}
    tr = T.drive(e, limit=limit, memo=memo)
    if tr.error is not None:
        stats.count("step-raised:" + type(tr.error).__name__)
        if not isinstance(tr.error, (OverflowError, MemoryError)):
            stats.count("step-raised-other")
        return
    for names in tr.fired:
        for nme in names:
            stats.count("rule:" + nme)
    stats.count("steps", tr.steps)
    if not tr.reduced:
        stats.count("not-reduced-within-limit")
    ctxs = [(env, RE.RefEval(env, keep_eps=True)) for env in envs]
    m0 = tr.models[0]
    fired = 0
    for i in range(1, len(tr.models)):
        if tr.models[i] is tr.models[i - 1]:
            continue
        if check_models(stats, tr.models[i - 1], tr.models[i], ctxs, rat_points, case, "step", m0,
                        fired=tr.fired[i - 1] if i - 1 < len(tr.fired) else None):
            fired += 1
    if tr.final_model is not None:
        if check_models(stats, tr.models[-1], tr.final_model, ctxs, rat_points, case, "normal-form", m0, allow_kf1_redex=False):
            stats.count("normal-form-changed")
    stats.count("fired", fired)
    if end_to_end:
        msg = end_to_end_failure(m, envs, "_normalize")
        if msg is not None:
            if findings.attributable_to_kf1(ID, lambda: end_to_end_failure(m, envs, "_normalize") is not None):
                stats.known("KF1")
            else:
                raise violation(ID, "end-to-end", f"end-to-end:{m[0]}", case, f"{M.text(m)[:300]}: {msg}")
        stats.count("end-to-end")


def draw_points(data, names, k=NPOINTS):
    """k points; the second is the first with all coordinates made positive, the third its mirror image: every
    variable is seen positive and negative."""
    p0 = data.draw(S.points(names, extra=False))
    pos = {n: (abs(v) if v != 0 else 1.5) for n, v in p0.items()}
    neg = {n: -v for n, v in pos.items()}
    out = [p0, pos, neg] + [data.draw(S.points(names, extra=False)) for _ in range(max(0, k - 3))]
    return out[:max(k, 3)]


def make_redex(stats):
    @given(st.data())
    def test(data):
        names = data.draw(S.name_lists(1, 3))
        template, m = data.draw(RX.placed(names))
        envs = draw_points(data, names)
        rat = [{n: data.draw(rationals()) for n in names} for _ in range(4)] if RE.is_rational_fragment(m) else None
        check(stats, m, envs, rat, template=template, sub="redex")
    return test


PAIR_SHAPES = None


def pair_shapes():
    """Every (parent, child) pair of constructors, with the child in every argument position."""
    global PAIR_SHAPES
    if PAIR_SHAPES is None:
        tags = list(M.ALL_TAGS[2:])
        out = []
        for p in tags:
            for c in tags:
                npos = 2 if (p in M.BINARY or p in M.NARY) else 1
                for pos in range(npos):
                    out.append((p, c, pos))
        PAIR_SHAPES = out
    return PAIR_SHAPES


@st.composite
def pairs(draw, names):
    """parent(child(holes...)) for a drawn constructor pair; holes are small sign-varied terms.  A NEW rewrite
    rule necessarily has some constructor pair as its left-hand side: this family covers them all."""
    p, c, pos = draw(st.sampled_from(pair_shapes()))

    def hole():
        k = draw(st.integers(0, 7))
        v = ("Variable", draw(st.sampled_from(names)))
        if k <= 2:
            return v
        if k == 3:
            return ("Negation", v)
        if k == 4:
            return ("Constant", draw(st.sampled_from([2, -2, 0.5, 3, -1, 1.5, 4, -0.5])))
        return draw(S.trees(names, depth=1, const_bias=2))

    def node(t, kids):
        if t in M.UNARY:
            return (t, kids[0])
        if t in M.PARAM_N:
            return (t, kids[0], draw(st.sampled_from([1, 2, 3, 4, 5, 6, 2.0])))
        if t == "Exponential":
            return (t, kids[0], draw(st.sampled_from(RX.BASES + [1])))
        if t == "Logarithm":
            return (t, kids[0], draw(st.sampled_from(RX.BASES)))
        if t in M.BINARY:
            return (t, kids[0], kids[1])
        extra = [hole() for _ in range(draw(st.integers(0, 2)))]
        return (t, tuple(kids + extra))
    child = node(c, [hole(), hole()])
    kids = [hole(), hole()]
    kids[pos if (p in M.BINARY or p in M.NARY) else 0] = child
    m = node(p, kids)
    if draw(st.integers(0, 3)) == 0:
        m = node(draw(st.sampled_from(list(M.ALL_TAGS[2:]))), [m, hole()])
    return f"{p}({c})", m


def make_pairs(stats):
    @given(st.data())
    def test(data):
        names = data.draw(S.name_lists(1, 2))
        label, m = data.draw(pairs(names))
        stats.count("pair:" + label)
        p0 = data.draw(S.exact_points(names))
        # both signs of every variable are always among the points
        envs = [p0, {k: -v for k, v in p0.items()}, data.draw(S.exact_points(names)), data.draw(S.points(names, extra=False))]
        rat = [{n: data.draw(rationals()) for n in names} for _ in range(4)] if RE.is_rational_fragment(m) else None
        check(stats, m, envs, rat, sub="pairs")
    return test


def make_random(stats):
    @given(st.data())
    def test(data):
        names = data.draw(S.name_lists(1, 3))
        m = data.draw(S.expressions(names, depth=3))
        envs = draw_points(data, names)
        check(stats, m, envs, sub="random")
    return test


def make_rational(stats):
    @given(st.data())
    def test(data):
        names = data.draw(S.name_lists(1, 3))
        m = data.draw(S.poly_trees(names, depth=4, tags=S.RATIONAL_TAGS, leaf=S.int_leaves(names)))
        envs = [data.draw(S.exact_points(names)) for _ in range(2)]
        rat = [{n: data.draw(rationals()) for n in names} for _ in range(4)]
        check(stats, m, envs, rat, sub="rational")
    return test


def make_partials(stats):
    """The simplifier's real diet: raw symbolic partials (forward and reverse) of random trees."""
    @given(st.data())
    def test(data):
        names = data.draw(S.name_lists(1, 3))
        base = data.draw(S.expressions(names, depth=2))
        var = data.draw(st.sampled_from(names))
        e = build(base)
        if data.draw(st.booleans()):
            raw = lib.call(lambda: e._synthetic_partial(var))
        else:
            raw = lib.call(lambda: e._synthetic_partials().get(var, e._synthetic_partial(var)))
        if raw.kind != lib.EXPR:
            raise HarnessError(f"cannot obtain raw symbolic partial: {raw!r}")
        m = to_model(raw.value)
        if M.size(m) > 400:
            stats.count("partial-too-large")
            return
        envs = draw_points(data, names, 3)
        check(stats, m, envs, sub="partials")
    return test


@st.composite
def big_inputs(draw, names):
    """300-900 nodes: nested n-ary nodes over small generated terms."""
    def block(d):
        t = draw(st.sampled_from(["Add", "Multiply"]))
        k = draw(st.integers(3, 6))
        kids = []
        for _ in range(k):
            if d > 0 and draw(st.integers(0, 2)) > 0:
                kids.append(block(d - 1))
            else:
                kids.append(draw(S.trees(names, depth=2, const_bias=3)))
        return (t, tuple(kids))
    if draw(st.booleans()):
        # flat and wide: hundreds of small REDUCIBLE terms (rule templates) directly under the root, which therefore
        # still holds all its constants / negations / reciprocals when the 1000-step budget runs out
        t = draw(st.sampled_from(["Add", "Add", "Add", "Multiply"]))
        total = ("Add", "Multiply", "Minus", "Negation", "NthPower", "Sine", "Cosine")      # defined everywhere

        def decorated():
            x = draw(S.trees(names, depth=2, tags=total, const_bias=3))
            for _ in range(draw(st.integers(1, 3))):
                w = draw(st.integers(0, 5))
                x = [("Negation", ("Negation", x)), ("Multiply", (("Constant", 1), x)), ("Add", (x, ("Constant", 0))),
                     ("NthPower", x, 1), ("Sine", ("Negation", x)), ("Minus", x, ("Constant", 0))][w]
            return x
        pool = [decorated() for _ in range(draw(st.integers(3, 8)))]
        k = draw(st.integers(120, 260)) if t == "Add" else draw(st.integers(40, 80))
        picks = draw(st.lists(st.integers(0, len(pool) - 1), min_size=k, max_size=k))
        kids = [M.clone(pool[i]) if j % 3 else pool[i] for j, i in enumerate(picks)]
        for _ in range(draw(st.integers(1, 5))):
            w = draw(st.integers(0, 4))
            extra = ("Constant", draw(st.sampled_from([-2, 5, 0, 1, -1, 0.5, 3, -0.25, -7, 4]))) if w <= 2 else \
                ("Negation", draw(S.trees(names, depth=1))) if w == 3 else ("Reciprocal", draw(S.trees(names, depth=1, const_bias=1)))
            kids.insert(draw(st.integers(0, len(kids))), extra)
        m = (t, tuple(kids))
        if draw(st.integers(0, 3)) == 0:
            m = ("Cosine", m) if draw(st.booleans()) else ("Minus", m, draw(S.trees(names, depth=1)))
        return m
    m = block(3)
    tries = 0
    while M.size(m) < 450 and tries < 8:
        m = (draw(st.sampled_from(["Add", "Multiply"])), (m, block(2), draw(S.trees(names, depth=2))))
        tries += 1
    # what the ROOT node still holds when the budget runs out is handed to the normal-form pass unreduced:
    # put constants (any sign, zero, one), negations and reciprocals directly under the root
    t = m[0]
    kids = list(m[1])
    for _ in range(draw(st.integers(0, 4))):
        w = draw(st.integers(0, 3))
        extra = ("Constant", draw(st.sampled_from([-2, 5, 0, 1, -1, 0.5, 3, -0.25]))) if w <= 1 else \
            ("Negation", draw(S.trees(names, depth=1))) if w == 2 else ("Reciprocal", draw(S.trees(names, depth=1, const_bias=1)))
        kids.insert(draw(st.integers(0, len(kids))), extra)
    m = (t, tuple(kids))
    if draw(st.integers(0, 3)) == 0:
        m = (draw(st.sampled_from(["Negation", "Sine", "Exponential"])), m) if draw(st.booleans()) else ("Minus", m, draw(S.trees(names, depth=1)))
        if m[0] == "Exponential":
            m = ("Exponential", m[1], 2)
    return m


def make_big(stats):
    @given(st.data())
    def test(data):
        names = data.draw(S.name_lists(2, 3))
        m = safe(data.draw(big_inputs(names)))
        size = M.size(m)
        stats.count("big-size>=300" if size >= 300 else "big-size<300")
        envs = draw_points(data, names, 3)
        w = lib.budget_warnings()
        n0 = w.n
        stats.case()
        case = make_case("budget", m, None, points=[M.point_to_json(e) for e in envs])
        msg = end_to_end_failure(m, envs, "_normalize")
        if w.n > n0:
            stats.count("budget-exhausted")
            stats.nontrivial_case(M.digest(M.canon(m)), {"input_nodes": size, "expr": M.text(m)[:200] + " ..."})
        if msg is not None:
            if findings.attributable_to_kf1(ID, lambda: end_to_end_failure(m, envs, "_normalize") is not None):
                stats.known("KF1")
                return
            raise violation(ID, "budget", f"budget:{m[0]}", case, f"{size}-node input: {msg}")
    return test


SKELETON_POINTS = [{"x": -3, "y": 2}, {"x": 0.5, "y": -0.5}, {"x": 2, "y": 3}, {"x": -1.5, "y": -2}, {"x": 1.5, "y": 0.25}]


def run_skeletons(tier):
    """EXHAUSTIVE small scope: every skeleton C11 enumerates (all unary chains of three parameterised constructors, all
    unary parents over depth-2 terms, all 3-ary sums/products over rule-relevant children; binary parents: 1/16 slice in
    the quick tier, all in the thorough tier) goes through the same step-by-step semantic check at four fixed points
    with both signs of x and y."""
    from . import c11

    def run(stats, seed, shard, nshards):
        for name, sliceable, gen in c11.skeleton_blocks():
            i = 0
            for m in gen():
                i += 1
                if i % nshards != shard:
                    continue
                if sliceable and tier == "quick" and (i // nshards) % 16 != (seed + 5) % 16:
                    continue
                stats.count("block:" + name)
                check(stats, m, SKELETON_POINTS, None, sub="skeleton", end_to_end=False)
    return run


def parts(tier):
    n = 6000 if tier == "quick" else 120000
    big = 160 if tier == "quick" else 3200
    ps = [run_part("skeletons", run_skeletons(tier)),
          hyp_part("redex", make_redex, int(n * 0.4)), hyp_part("pairs", make_pairs, int(n * 0.5)),
          hyp_part("random", make_random, int(n * 0.1)),
          hyp_part("rational", make_rational, int(n * 0.15)), hyp_part("partials", make_partials, int(n * 0.2)),
          hyp_part("big", make_big, big)]
    fz = int(os.environ.get("VERIF_FUZZ_RUNS", "0" if tier == "quick" else "160000"))
    if fz:
        ps.append(fuzz_part("fuzz-redex", ID, "make_redex", fz // 2))
        ps.append(fuzz_part("fuzz-random", ID, "make_random", fz // 2))
    return ps


def replay(case):
    sub = case.get("sub", "steps")
    m = case_model(case)
    envs = [M.point_from_json(p) for p in case["points"]]
    rat = [{k: Fraction(v) for k, v in rp} for rp in case.get("rat_points", [])] or None
    if sub == "budget":
        msg = end_to_end_failure(m, envs, "_normalize")
        if msg is not None and not findings.attributable_to_kf1(ID, lambda: end_to_end_failure(m, envs, "_normalize") is not None):
            raise violation(ID, "budget", f"budget:{m[0]}", case, msg)
        return
    check(Stats(), m, envs, rat, template=case.get("template"), sub=sub)


def self_test(tier, agg):
    tot = {}
    for g in agg.values():
        for k, c in g["counters"].items():
            tot[k] = tot.get(k, 0) + c
    bad = []
    fired = {k[5:] for k in tot if k.startswith("rule:")}
    if fired:
        # every rule the spy could see must have fired at least a few times
        import smoothmath.expression as sx
        for cname in M.ALL_TAGS:
            cls = getattr(sx, cname)
            for attr in vars(cls):
                if attr.startswith("_reduce_") and tot.get(f"rule:{cname}.{attr}", 0) < 3:
                    bad.append(f"C08: rule {cname}.{attr} fired fewer than 3 times")
    for t in RX.TEMPLATE_NAMES:
        if tot.get("template:" + t, 0) < 3:
            bad.append(f"C08: template {t} generated fewer than 3 times")
    if tot.get("budget-exhausted", 0) < 3:
        bad.append("C08: fewer than 3 budget-exhausting inputs")
    return bad
