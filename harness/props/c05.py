"""C05 - symbolic derivatives denote the true derivative on the original's domain."""
from __future__ import annotations
from fractions import Fraction
from hypothesis import given, strategies as st
from harness import strategies as S
from harness import deriv as DV
from harness import findings
from .common import *

ID = "C05"
RULE = ("Generated trees/DAGs x every variable x symbolic routes (Partial.as_expression late/early, "
        "Derivative.as_expression late/early, Differential(compute_early=True).component(v).as_expression, "
        "Differential().component(v).as_expression) x 3 generated points that supply only the original's variables. "
        "Oracle: result is an Expression mentioning no foreign variable; at every point where the reference says the "
        "original is defined, the result evaluates (no DomainError/CoordinateMissing) to the reference AD value within "
        "8 x (eps of evaluating the result with 2-ulp constants + AD bound); second order: Partial(result, w).at(p) "
        "against reference AD of the result's model, which must equal the 260-digit central difference of the "
        "first-order reference derivative; rational-function fragment: exact Fraction equality at 8 generated rational "
        "points (polynomial identity testing).  Non-trivial = the simplified result differs structurally from the raw "
        "symbolic partial AND (tree depth >= 3 or a negative value under a root/power at a checked point); distinct by "
        "SHA-1 of (canonical model, variable, route).")
ASSUMPTIONS = [
    "reference AD (mpmath, 50 digits) is the true derivative; self-checked by central differences",
    "constants of the returned expression may carry 2 ulp of folding error",
    "KF1 (root-of-even-power rule) failures are attributed by suppressing exactly that rule instance in-process",
]


def neg_under_root_or_power(m, ctx):
    for x in M.subterms(m):
        if x[0] in ("NthRoot", "NthPower", "Logarithm") or x[0] == "Power":
            r = ctx.eval(M.children(x)[0])
            if r.st == RE.DEFINED and r.v < 0:
                return True
    return False


def raw_partial_model(m, var, route):
    e = build(m)
    if route.startswith("Differential(early)"):
        raw = e._synthetic_partials().get(var)
        if raw is None:
            return None
    else:
        raw = e._synthetic_partial(var)
    return to_model(raw)


def first_order_failure(m, var, route, env, as_object):
    """Re-runs one (route, point) sub-check from scratch; returns a message if it fails, else None."""
    o = DV.oracle(m, env, var)
    if o.st != "ok":
        return None
    out = lib.call(lambda: DV.run_symbolic(route, m, var, as_object))
    if out.kind != lib.EXPR:
        return None
    s = out.value
    sm = to_model(s)
    penv = {k: v for k, v in env.items() if k in M.variables(m)}
    got = lib.call(lambda: s.at(lib.Point(**penv)))
    if got.kind == lib.DOM:
        rs, _ = RE.evaluate(sm, penv, const_ulps=2.0)
        if rs.st in (RE.UNDECIDED, RE.RANGE):
            return None     # within rounding distance (folded constants) of the result's own boundary
    if got.kind in (lib.DOM, lib.MISS):
        return f"original defined (true partial {o.D}) but the symbolic derivative {M.text(sm)[:200]} raised {got.kind}"
    if got.kind != lib.NUM:
        return None if got.kind == lib.OVF else f"symbolic derivative evaluation gave {got!r}"
    rs, _ = RE.evaluate(sm, penv, const_ulps=2.0)
    if rs.st != RE.DEFINED:
        return None
    if ill_conditioned(rs.eps + o.ed, max(abs(o.D), o.a)):
        return None
    ok, ratio = within(got.value, o.D, rs.eps + o.ed)
    if not ok:
        return (f"symbolic derivative {M.text(sm)[:200]} evaluates to {got.value!r}, true partial is {o.D} "
                f"(error/bound {ratio:.3g})")
    return None


def check(stats, m, var, route, envs, as_object=False, rat_points=None, second=None, sub="symbolic"):
    m = safe(m)
    stats.case()
    vs = M.variables(m)
    case = make_case(sub, m, None, var=var, route=route, as_object=as_object,
                     points=[M.point_to_json(e) for e in envs],
                     rat_points=[[[k, str(v)] for k, v in rp.items()] for rp in (rat_points or [])], second=second)
    where = f"{route} for d/d{var} of {M.text(m)[:300]}"
    if constant_out_of_range(m):
        # a variable-free sub-tree whose exact value leaves the double range (e.g. (1/1.5e-252)/1.5e-252): every point is
        # outside the property's scope, and folding it produces inf / OverflowError / math domain errors
        stats.count("constant-subtree-out-of-range")
        return
    out = lib.call(lambda: DV.run_symbolic(route, m, var, as_object))
    if out.kind == lib.OVF:
        stats.count("fold-overflow")
        return
    if out.kind != lib.EXPR:
        raise violation(ID, sub, f"not-an-expression:{out.kind}", case, f"{where}: gave {out!r}")
    s = out.value
    sm = to_model(s)
    foreign = [v for v in M.variables(sm) if v not in vs]
    if foreign:
        raise violation(ID, sub, f"foreign-variable:{route.split('.')[0]}", case,
                        f"{where}: result {M.text(sm)[:200]} mentions {foreign}, the original only {vs}")
    stats.count("route:" + route)
    rewritten = None
    negative = False
    decided = 0
    for env in envs:
        o = DV.oracle(m, env, var, selfcheck=False)
        stats.count("oracle:" + o.st)
        if o.st != "ok":
            continue
        penv = {k: v for k, v in env.items() if k in vs}
        msg = first_order_failure(m, var, route, env, as_object)
        if msg is not None:
            if findings.attributable_to_kf1(ID, lambda: first_order_failure(m, var, route, env, as_object) is not None):
                stats.known("KF1")
                continue
            c2 = dict(case)
            c2["points"] = [M.point_to_json(env)]
            raise violation(ID, sub, f"first-order:{route}:{m[0]}", c2, f"{where} at {M.point_text(penv)}: {msg}")
        decided += 1
        negative = negative or neg_under_root_or_power(m, o.ctx)
        # second order on the returned expression
        if second is not None and second in vs:
            msg2 = second_order_failure(stats, m, var, sm, s, penv, second)
            if msg2 is not None:
                if findings.attributable_to_kf1(ID, lambda: _second_again(m, var, route, as_object, penv, second)):
                    stats.known("KF1")
                    continue
                c2 = dict(case)
                c2["points"] = [M.point_to_json(env)]
                raise violation(ID, "second-order", f"second-order:{route}:{m[0]}", c2,
                                f"{where} at {M.point_text(penv)}: {msg2}")
    # polynomial identity on the rational-function fragment
    if rat_points and RE.is_rational_fragment(m) and var in vs:
        identity(stats, m, var, sm, rat_points, case, where)
    if decided:
        if rewritten is None:
            raw = raw_partial_model(m, var, route)
            rewritten = raw is not None and M.canon(raw) != M.canon(sm)
        if rewritten:
            stats.count("rewritten")
        if rewritten and (M.depth(m) >= 3 or negative):
            stats.nontrivial_case(M.digest(M.canon(m), var, route),
                                  {"expr": M.text(m)[:400], "variable": var, "route": route,
                                   "result": M.text(sm)[:400], "points_decided": decided})


def second_order_failure(stats, m, var, sm, s, penv, w):
    """None or message.  s: the library's expression; sm its model."""
    o2 = DV.oracle(sm, penv, w)
    if o2.st != "ok":
        return None
    # the reference second derivative by definition: central difference of the first-order reference derivative
    cd2 = _cd_of_first(m, var, penv, w)
    if cd2 is not None and fold_conditioning(m) > 1e-12:
        # a variable-free sub-tree of the original is ill-conditioned (e.g. cos of 6.8e8): the constant the library
        # folds it to legitimately differs from the true value by far more than an ulp ("rounding proportional to
        # conditioning"), so the exact second derivative is not what the returned expression can be held to
        stats.count("second-order-skip:ill-conditioned-fold")
        cd2 = None
    if cd2 is not None:
        # how far the returned expression's derivative may sit from the truth because its float constants were
        # folded in double arithmetic: reference AD with 2 ulp of uncertainty on every float constant
        ctx_c = RE.RefEval(penv, lo=DV.LO, hi=DV.HI, const_ulps=2.0)
        o2c = DV.oracle(sm, penv, w, ctx=ctx_c, r=ctx_c.eval(sm))
        if o2c.st != "ok":
            stats.count("second-order-skip:undecided-with-constant-uncertainty")
            cd2 = None
    if cd2 is not None:
        tol = 1e-9 * (abs(o2.D) + o2.a + abs(cd2) + 1) + TOL * o2c.ed
        if abs(cd2 - o2.D) > tol:
            return (f"d/d{w} of the returned expression {M.text(sm)[:200]} is {o2.D}, but the true second-order partial "
                    f"(central difference of the true first-order partial) is {cd2}")
        stats.count("second-order-by-definition")
    got = lib.call(lambda: lib.Partial(s, w).at(lib.Point(**penv)))
    if got.kind in (lib.DOM, lib.MISS):
        return None  # domain questions on the derivative's own domain are outside this clause
    if got.kind != lib.NUM:
        return None if got.kind == lib.OVF else f"Partial(result, {w}).at gave {got!r}"
    if ill_conditioned(o2.ed, max(abs(o2.D), o2.a)):
        return None
    ok, ratio = within(got.value, o2.D, o2.ed)
    stats.count("second-order-numeric")
    if not ok:
        return (f"Partial(returned expression, {w}).at gives {got.value!r}, reference derivative of the returned "
                f"expression is {o2.D} (error/bound {ratio:.3g})")
    return None


def constant_out_of_range(m):
    seen = set()
    bad = [False]

    def go(x):
        if bad[0] or id(x) in seen or x[0] in M.LEAVES:
            return
        seen.add(id(x))
        if not M.variables(x):
            r, _ = RE.evaluate(x, {}, lo=1e-290, hi=1e290)
            if r.st == RE.RANGE:
                bad[0] = True
            return
        for c in M.children(x):
            go(c)
    go(m)
    return bad[0]


def fold_conditioning(m):
    """Sum over maximal variable-free non-leaf sub-trees T of (rounding bound of evaluating T) / |T|."""
    total = 0.0
    seen = set()

    def go(x):
        nonlocal total
        if id(x) in seen or x[0] in M.LEAVES:
            return
        seen.add(id(x))
        if not M.variables(x):
            r, _ = RE.evaluate(x, {}, lo=0.0, hi=float("inf"))
            if r.st == RE.DEFINED:
                total += r.eps / max(float(abs(r.v)), 1e-300)
            return
        for c in M.children(x):
            go(c)
    go(m)
    return total


def _second_again(m, var, route, as_object, penv, w):
    out = lib.call(lambda: DV.run_symbolic(route, m, var, as_object))
    if out.kind != lib.EXPR:
        return True
    return second_order_failure(Stats(), m, var, to_model(out.value), out.value, penv, w) is not None


def _cd_of_first(m, var, penv, w):
    import mpmath
    p = Fraction(penv[w])
    h = Fraction(1, 10 ** 60) * max(abs(p), Fraction(1, 10 ** 60))
    vals = []
    with mpmath.workdps(200):
        for sgn in (1, -1):
            e2 = dict(penv)
            e2[w] = p + sgn * h
            ctx = RE.RefEval(e2, lo=0.0, hi=float("inf"))
            r = ctx.eval(m)
            if r.st != RE.DEFINED:
                return None
            try:
                d = RA.RefAD(ctx, var, lo=0.0, hi=float("inf")).deriv(m)
            except (RA.DRange, ZeroDivisionError, OverflowError):
                return None
            vals.append(d.d)
        q = (vals[0] - vals[1]) / (2 * RE.to_mpf(h))
    return +q


def constants_exact(sm):
    for x in M.subterms(sm):
        if x[0] == "Constant":
            fr = Fraction(x[1])
            if fr.denominator > 2 ** 20 or abs(fr.numerator) > 2 ** 40:
                return False
    return True


def identity(stats, m, var, sm, rat_points, case, where):
    if not RE.is_rational_fragment(sm):
        stats.count("identity:result-not-rational")
        return
    if not constants_exact(sm):
        stats.count("identity:inexact-constants")
        return
    n = 0
    for rp in rat_points:
        env = {k: rp[k] for k in M.variables(m)}
        try:
            want = RA.frac_dual(m, env, var)[1]
        except ZeroDivisionError:
            continue
        try:
            got = RE.frac_eval(sm, env)
        except RE.FracUndefined:
            raise violation(ID, "identity", f"identity-pole:{m[0]}", case,
                            f"{where}: result {M.text(sm)[:200]} has a pole at the rational point {env} where the original is defined")
        n += 1
        if got != want:
            raise violation(ID, "identity", f"identity:{m[0]}", case,
                            f"{where}: result {M.text(sm)[:200]} is not the derivative as a rational function: at {env} "
                            f"it is {got}, the exact derivative is {want}")
    if n:
        stats.count("identity:points", n)
        stats.count("identity:cases")


def rationals():
    return st.builds(Fraction, st.integers(-2 ** 20, 2 ** 20), st.sampled_from([1, 3, 7, 11, 13, 97, 101, 1009]))


def make_general(stats):
    @given(st.data())
    def test(data):
        names = data.draw(S.name_lists(1, 4))
        m = data.draw(S.expressions(names, depth=3))
        vs = M.variables(m)
        var = data.draw(st.sampled_from(names))
        routes = DV.symbolic_routes_for(m, var)
        route = data.draw(st.sampled_from(routes))
        envs = [data.draw(S.points(vs, extra=False)) for _ in range(3)]
        second = data.draw(st.sampled_from(vs)) if vs and data.draw(st.booleans()) else None
        check(stats, m, var, route, envs, as_object=data.draw(st.booleans()), second=second)
    return test


def make_siblings(stats):
    """Two nearly identical expressions (one constant / parameter / leaf changed, incl. constants whose Python hashes
    collide) differentiated one after the other in the same process: the second must get ITS derivative."""
    from harness import mutate_model as MM

    @given(st.data())
    def test(data):
        names = data.draw(S.name_lists(1, 2))
        tags = ("Add", "Multiply", "Minus", "Negation", "NthPower", "Sine", "Exponential", "Divide")
        m = data.draw(S.trees(names, depth=2, tags=tags, leaf=st.one_of(
            st.sampled_from([-1, -2, 0, 1, 2, -3, 3, 0.5]).map(lambda v: ("Constant", v)),
            st.sampled_from(names).map(lambda n: ("Variable", n)), st.sampled_from(names).map(lambda n: ("Variable", n)))))
        sib = data.draw(MM.sibling(m, names))
        vs = M.variables(m)
        if sib is None or not vs:
            return
        var = data.draw(st.sampled_from(vs))
        route = data.draw(st.sampled_from(["Partial.as_expression/late", "Partial.as_expression/early",
                                           "Differential(early).component.as_expression"]))
        envs = [data.draw(S.exact_points(names)) for _ in range(2)]
        stats.count("sibling:" + sib[0])
        check(stats, m, var, route, envs, sub="siblings")
        if var in M.variables(sib[1]):
            check(stats, sib[1], var, route, envs, sub="siblings")
    return test


def make_rational(stats):
    @given(st.data())
    def test(data):
        names = data.draw(S.name_lists(1, 3))
        m = data.draw(S.poly_trees(names, depth=3, tags=S.RATIONAL_TAGS, leaf=S.int_leaves(names)))
        vs = M.variables(m)
        var = data.draw(st.sampled_from(names))
        route = data.draw(st.sampled_from(DV.symbolic_routes_for(m, var)))
        envs = [data.draw(S.exact_points(vs)) for _ in range(2)]
        rat = [{n: data.draw(rationals()) for n in vs} for _ in range(8)]
        check(stats, m, var, route, envs, rat_points=rat, second=var if var in vs else None, sub="rational")
    return test


def make_roots(stats):
    """Roots / powers / logs of possibly negative inner values: where simplification has to mind signs."""
    @given(st.data())
    def test(data):
        names = data.draw(S.name_lists(1, 2))
        inner = data.draw(S.poly_trees(names, depth=2, tags=S.POLY_TAGS))
        k = data.draw(st.integers(0, 5))
        n1, n2 = data.draw(st.sampled_from([2, 3, 4, 6, 5])), data.draw(st.sampled_from([2, 3, 4, 6, 5]))
        if k == 0:
            m = ("NthRoot", ("NthPower", inner, n1), n2)
        elif k == 1:
            m = ("NthPower", ("NthRoot", inner, n1), n2)
        elif k == 2:
            m = ("Logarithm", ("NthPower", inner, n1), data.draw(S.log_bases()))
        elif k == 3:
            m = ("NthRoot", ("Multiply", (inner, inner)), n2)
        elif k == 4:
            m = ("Multiply", (("NthRoot", inner, n1), ("NthRoot", data.draw(S.poly_trees(names, depth=1)), n1)))
        else:
            m = ("Power", ("NthPower", inner, 2), ("Constant", data.draw(st.sampled_from([0.5, 1.5, -0.5, 2, 3]))))
        outer = data.draw(S.trees(names, depth=1))
        m = data.draw(st.sampled_from([m, ("Add", (m, outer)), ("Multiply", (outer, m)), ("Sine", m)]))
        vs = M.variables(m)
        var = data.draw(st.sampled_from(names))
        route = data.draw(st.sampled_from(DV.symbolic_routes_for(m, var)))
        envs = [data.draw(S.exact_points(vs)) for _ in range(3)]
        check(stats, m, var, route, envs, second=var if var in vs and data.draw(st.booleans()) else None, sub="roots")
    return test


SKELETON_POINTS = [{"x": -3, "y": 2}, {"x": 0.5, "y": -0.5}, {"x": 2, "y": 3}, {"x": -1.5, "y": -2}]


def run_skeletons(tier):
    """Exhaustive small scope shared with C08/C10/C11: the symbolic derivative of every enumerated unary chain, unary
    parent and tower (quick tier: a third of them; thorough tier: also the 3-ary and n-ary-mid blocks) with respect to x
    is held to the true derivative at four fixed points with both signs."""
    from . import c11
    blocks = ("chains", "unary-parents", "towers") if tier == "quick" else ("chains", "unary-parents", "towers", "ternary", "nary-mid")
    routes = ["Partial.as_expression/late", "Differential(early).component.as_expression", "Partial.as_expression/early"]

    def run(stats, seed, shard, nshards):
        for name, sliceable, gen in c11.skeleton_blocks():
            if name not in blocks:
                continue
            i = 0
            for m in gen():
                i += 1
                if i % nshards != shard:
                    continue
                if tier == "quick" and (i // nshards) % 3 != seed % 3:
                    continue
                stats.count("block:" + name)
                vs = M.variables(m)
                if "x" not in vs:
                    continue
                envs = [{k: p[k] for k in vs} for p in SKELETON_POINTS]
                check(stats, m, "x", routes[(i // nshards) % 3], envs, sub="skeleton")
    return run


def parts(tier):
    n = 8000 if tier == "quick" else 150000
    return [run_part("skeletons", run_skeletons(tier)),
            hyp_part("general", make_general, int(n * 0.5)), hyp_part("rational", make_rational, int(n * 0.25)),
            hyp_part("roots", make_roots, int(n * 0.25)), hyp_part("siblings", make_siblings, int(n * 0.15))]


EXHAUSTIVE_PARTS = ["skeletons (C11's enumeration: thorough tier complete for chains, unary parents, towers, 3-ary and n-ary-mid blocks; quick tier a VERIF_SEED-chosen third of chains, unary parents and towers)"]


def replay(case):
    rat = [{k: Fraction(v) for k, v in rp} for rp in case.get("rat_points", [])]
    check(Stats(), case_model(case), case["var"], case["route"], [M.point_from_json(p) for p in case["points"]],
          case.get("as_object", False), rat_points=rat or None, second=case.get("second"), sub=case.get("sub", "symbolic"))


def self_test(tier, agg):
    tot = {}
    for g in agg.values():
        for k, c in g["counters"].items():
            tot[k] = tot.get(k, 0) + c
    bad = []
    for r in DV.SYMBOLIC_ROUTES:
        if tot.get("route:" + r, 0) < 50:
            bad.append(f"C05: route {r} exercised fewer than 50 times")
    if tot.get("identity:cases", 0) < 100:
        bad.append("C05: polynomial-identity sub-check starved")
    if tot.get("second-order-by-definition", 0) < 100:
        bad.append("C05: second-order sub-check starved")
    return bad
