"""C13 - the printed form echoes the object."""
from __future__ import annotations
import keyword
import math
import unicodedata
from hypothesis import given, strategies as st
import smoothmath
import smoothmath.expression as sx
from harness import strategies as S
from harness import mutate_model as MM
from .common import *

ID = "C13"
RULE = ("Generated expression trees over all 15 constructors with all parameter spellings (every n, every base incl. "
        "floats, negative / tiny / integral-float constants, all legal variable names incl. non-ASCII), points whose "
        "coordinate names are Python identifiers, and Partial/Derivative/Differential/LocatedDifferential objects.  "
        "Oracle = round trip: eval(repr(o)) with only the public names in scope == o, the rebuilt object's structure "
        "equals the original's canonical model, str(o) == repr(o); one-change siblings (structurally unequal) must print "
        "differently; derivative objects print as Constructor(repr(expression), Variable(\"v\") | repr(point)).  "
        "Non-trivial = tree with a parameterised node or >= 3 distinct constructors; distinct by SHA-1 of canonical model.")
ASSUMPTIONS = ["finite numeric content only (the property's wording)",
               "point coordinate names restricted to non-keyword identifiers that are stable under NFKC normalisation, "
               "because Python's parser itself normalises identifiers in keyword arguments"]

PUBLIC = {name: getattr(sx, name) for name in sx.__all__}
PUBLIC.update({name: getattr(smoothmath, name) for name in smoothmath.__all__})


def evaluate_text(text):
    return eval(text, {"__builtins__": {}}, dict(PUBLIC))  # noqa: the property is about exactly this


def check_expression(stats, m, sib=None, sub="expr"):
    stats.case()
    case = make_case(sub, m, None, sibling=M.to_json(sib[1]) if sib else None)
    e = fresh(m)
    r = repr(e)
    if str(e) != r:
        raise violation(ID, sub, f"str-vs-repr:{m[0]}", case, f"str gives {str(e)[:200]} but repr gives {r[:200]}")
    try:
        back = evaluate_text(r)
    except Exception as ex:  # noqa
        raise violation(ID, sub, f"eval-fails:{type(ex).__name__}:{m[0]}", case, f"eval of the printed form {r[:300]} raised {type(ex).__name__}: {ex}")
    if not isinstance(back, smoothmath.Expression) or not (back == e) or not (e == back):
        raise violation(ID, sub, f"round-trip:{first_difference(m, back)}", case,
                        f"eval(repr(e)) != e for e built as {M.text(m)[:300]}; it printed as {r[:300]}")
    bm = to_model(back)
    if M.canon(bm) != M.canon(m):
        raise violation(ID, sub, f"round-trip-structure:{first_difference(m, back)}", case,
                        f"the printed form {r[:300]} rebuilds {M.text(bm)[:300]}, not {M.text(m)[:300]}")
    if sib is not None:
        kind, ms, equal = sib
        if not equal and M.canon(ms) != M.canon(m):
            rs = repr(fresh(ms))
            if rs == r:
                raise violation(ID, "injective", f"same-print:{kind}", case,
                                f"two unequal expressions print identically: {M.text(m)[:250]} and {M.text(ms)[:250]} both print {r[:250]}")
            stats.count("sibling-prints-differently")
    tags = M.tags(m)
    if any(t in tags for t in M.PARAM_N + M.PARAM_BASE) or len(tags) >= 3:
        stats.nontrivial_case(M.digest(M.canon(m)), {"built": M.text(m)[:300], "printed": r[:300]})
    return e, r


def first_difference(m, back):
    try:
        bm = to_model(back)
    except Exception:  # noqa
        return "not-an-expression"
    a, b = m, bm
    while True:
        if a[0] != b[0]:
            return f"{a[0]}->{b[0]}"
        ca, cb = M.children(a), M.children(b)
        if len(ca) != len(cb):
            return f"{a[0]}:arity"
        if a[0] in M.PARAM_N + M.PARAM_BASE and M.canon(("Constant", a[2])) != M.canon(("Constant", b[2])):
            return f"{a[0]}:parameter"
        if a[0] in M.LEAVES:
            return f"{a[0]}:leaf"
        for x, y in zip(ca, cb):
            if M.canon(x) != M.canon(y):
                a, b = x, y
                break
        else:
            return "same?"


def check_objects(stats, m, env, var):
    """Derivative objects and points print as their constructor applied to the printed parts."""
    e = fresh(m)
    r = repr(e)
    case = make_case("objects", m, env, var=var)
    P = lib.Point(**env)
    pr = "Point(" + ", ".join(f"{k}={v!r}" for k, v in env.items()) + ")"
    if repr(P) != pr or str(P) != pr:
        raise violation(ID, "point", "point-format", case, f"Point printed {repr(P)[:200]}, expected {pr[:200]}")
    back = evaluate_text(repr(P))
    if not (back == P):
        raise violation(ID, "point", "point-round-trip", case, f"eval(repr(Point)) != Point for {pr[:200]}")
    expected = [
        (lib.Partial(e, var), f'Partial({r}, Variable("{var}"))'),
        (lib.Partial(e, sx.Variable(var), compute_early=False), f'Partial({r}, Variable("{var}"))'),
        (lib.Differential(e), f"Differential({r})"),
    ]
    if len(M.variables(m)) <= 1:
        expected.append((lib.Derivative(e), f"Derivative({r})"))
    full = dict(env)
    for n in M.variables(m):
        full.setdefault(n, 1)
    if all(k.isidentifier() and not keyword.iskeyword(k) and unicodedata.normalize("NFKC", k) == k for k in full):
        P2 = lib.Point(**full)
        ld = lib.call(lambda: lib.LocatedDifferential(e, P2))
        if ld.kind == lib.OBJ:
            expected.append((ld.value, f"LocatedDifferential({r}, {P2!r})"))
    for obj, want in expected:
        if repr(obj) != want or str(obj) != want:
            raise violation(ID, "objects", f"object-format:{type(obj).__name__}", case,
                            f"{type(obj).__name__} printed {repr(obj)[:250]}, expected {want[:250]}")
        back = evaluate_text(repr(obj))
        if not (back == obj):
            raise violation(ID, "objects", f"object-round-trip:{type(obj).__name__}", case, f"eval(repr(o)) != o for {want[:250]}")
        stats.count("object:" + type(obj).__name__)


def identifier_names():
    ok = lambda n: n.isidentifier() and not keyword.iskeyword(n) and unicodedata.normalize("NFKC", n) == n  # noqa
    return S.legal_names().filter(ok)


@st.composite
def printable_trees(draw, names):
    """General trees, then every leaf variable renamed into the legal-name alphabet and extra parameter spellings."""
    m = draw(S.expressions(names, depth=3))
    return m


def make_expr(stats):
    @given(st.data())
    def test(data):
        pool = data.draw(st.lists(S.legal_names(), min_size=1, max_size=3, unique=True))
        m = data.draw(S.expressions(pool, depth=3))
        sib = data.draw(MM.sibling(m, pool)) if data.draw(st.booleans()) else None
        check_expression(stats, m, sib)
    return test


def make_params(stats):
    """Every constructor with every parameter spelling around one generated child."""
    @given(st.data())
    def test(data):
        pool = data.draw(st.lists(S.legal_names(), min_size=1, max_size=2, unique=True))
        child = data.draw(S.trees(pool, depth=1))
        t = data.draw(st.sampled_from(M.PARAM_N + M.PARAM_BASE + ("Constant",)))
        if t in M.PARAM_N:
            m = (t, child, data.draw(st.one_of(st.integers(1, 40), st.sampled_from([1.0, 2.0, 7.0, 100, 10 ** 6, 1e3]))))
        elif t == "Exponential":
            m = (t, child, data.draw(st.one_of(S.exp_bases(), st.floats(min_value=1e-300, max_value=1e300, allow_nan=False))))
        elif t == "Logarithm":
            m = (t, child, data.draw(st.one_of(S.log_bases(), st.floats(min_value=1e-300, max_value=1e300, allow_nan=False).filter(lambda b: b != 1))))
        else:
            m = ("Constant", data.draw(st.one_of(st.integers(-10 ** 12, 10 ** 12), st.floats(allow_nan=False, allow_infinity=False),
                                                 st.sampled_from([-0.0, 1e-05, 1e16, 123456789.123456789, -1e-300]))))
        sib = data.draw(MM.sibling(m, pool)) if data.draw(st.booleans()) else None
        check_expression(stats, m, sib, sub="params")
    return test


def make_objects(stats):
    @given(st.data())
    def test(data):
        pool = data.draw(st.lists(identifier_names(), min_size=1, max_size=3, unique=True))
        m = data.draw(S.trees(pool, depth=2, tags=("Add", "Multiply", "Minus", "Negation", "NthPower", "Sine", "Cosine", "Exponential")))
        stats.case()
        env = {n: data.draw(S.coordinate_values()) for n in data.draw(st.permutations(pool))}
        check_objects(stats, m, env, data.draw(st.sampled_from(pool)))
        stats.nontrivial_case(M.digest(M.canon(m), sorted(env.items())), {"expr": M.text(m)[:200], "point": M.point_text(env)})
    return test


def parts(tier):
    n = 20000 if tier == "quick" else 400000
    return [hyp_part("expressions", make_expr, int(n * 0.55)), hyp_part("parameters", make_params, int(n * 0.25)),
            hyp_part("objects", make_objects, int(n * 0.2))]


def replay(case):
    sub = case.get("sub")
    m = case_model(case)
    if sub == "objects":
        check_objects(Stats(), m, case_point(case), case["var"])
        return
    sib = None
    if case.get("sibling"):
        ms = M.from_json(case["sibling"])
        sib = ("replayed", ms, M.canon(ms) == M.canon(m))
    check_expression(Stats(), m, sib, sub=sub or "expr")


def self_test(tier, agg):
    bad = []
    if agg.get("expressions", {}).get("counters", {}).get("sibling-prints-differently", 0) < 200:
        bad.append("C13: fewer than 200 sibling pairs compared")
    return bad
