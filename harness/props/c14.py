"""C14 - an expression needs exactly the coordinates of the variables it mentions."""
from __future__ import annotations
from hypothesis import given, strategies as st
import smoothmath.expression as sx
from harness import strategies as S
from harness import deriv as DV
from .common import *

ID = "C14"
RULE = ("Generated trees/DAGs over generated LEGAL variable names (ASCII, digits-first, underscores, Unicode letters and "
        "digits, Python keywords, 'self', 'whatever', parameter names of the API) x every kind of supplied subset of the "
        "occurring variables (all, proper non-empty subset, none) x extra coordinates x all entry points (at, 14 numeric "
        "derivative routes, evaluation of as_expression()/_normalize() outputs).  Oracle = the model's variable set: all "
        "occurring variables supplied => no route raises CoordinateMissing (also when the differentiation variable occurs "
        "nowhere); some occurring variable missing => Expression.at does not return a value; at(number) is accepted <=> "
        "<= 1 variable; Derivative(e) constructs <=> <= 1 variable; Variable(name).at(Point(**{name: v})) == v and "
        "Variable(name).at(v) == v for every legal name; simplified outputs mention only original variables.  "
        "Non-trivial = proper non-empty subset supplied, or a non-ASCII/keyword/API-parameter name, or a variable that "
        "occurs only under an n-ary or zero-masked node; distinct by SHA-1 of (canonical model, supplied names).")
ASSUMPTIONS = ["'does not return a number' when a coordinate is missing: any exception is accepted (CoordinateMissing or a "
               "DomainError raised earlier in evaluation order)"]


def masked_only(m, name):
    """Does `name` occur only under Multiply-by-constant-zero / Add / Multiply nodes?"""
    found = []

    def go(x, under):
        if x[0] == "Variable" and x[1] == name:
            found.append(under)
        for c in M.children(x):
            u = under
            if x[0] == "Multiply" and any(k[0] == "Constant" and k[1] == 0 for k in x[1]):
                u = "zero"
            elif x[0] in M.NARY and u is None:
                u = "nary"
            go(c, u)
    if M.size(m) < 400:
        go(m, None)
    return bool(found) and all(f is not None for f in found)


def check(stats, m, env, supplied, var, extra, sub="coordinates"):
    m = safe(m)
    stats.case()
    vs = M.variables(m)
    point = {k: env[k] for k in supplied}
    point.update(extra)
    complete = all(v in point for v in vs)
    case = make_case(sub, m, point, var=var, supplied=list(supplied))
    where = f"{M.text(m)[:300]} (variables {vs}) at {M.point_text(point)}"
    e = build(m)
    P = lib.call(lambda: lib.Point(**point))
    if P.kind != lib.OBJ:
        raise violation(ID, "point", f"point-construction:{P.kind}", case, f"Point(**{point!r}) gave {P!r}")
    out = lib.call(lambda: e.at(P.value))
    if complete:
        stats.count("complete")
        if out.kind == lib.MISS:
            raise violation(ID, sub, f"spurious-missing:at:{m[0]}", case, f"{where}: every occurring variable is supplied but at() raised CoordinateMissing")
        for rt in DV.routes_for(m, var):
            if "number" in rt:
                continue
            o = lib.call(lambda: DV.run_numeric(rt, m, point, var))
            stats.count("route:" + rt)
            if o.kind == lib.MISS:
                raise violation(ID, sub, f"spurious-missing:{rt}", case,
                                f"{where}: every occurring variable is supplied but {rt} (d/d{var}) raised CoordinateMissing")
        # simplified outputs need no more than the original
        for tag, f in (("as_expression", lambda: lib.Partial(build(m), var).as_expression()), ("_normalize", lambda: build(m)._normalize()),
                       ("Differential", lambda: lib.Differential(build(m), compute_early=True).component(var).as_expression())):
            s = lib.call(f)
            if s.kind == lib.EXPR:
                sm = to_model(s.value)
                foreign = [v for v in M.variables(sm) if v not in vs]
                if foreign:
                    raise violation(ID, sub, f"foreign-variable:{tag}", case, f"{where}: {tag} output {M.text(sm)[:200]} mentions {foreign}")
                o = lib.call(lambda: s.value.at(lib.Point(**point)))
                if o.kind == lib.MISS:
                    raise violation(ID, sub, f"spurious-missing:{tag}-output", case,
                                    f"{where}: evaluating the {tag} output {M.text(sm)[:200]} raised CoordinateMissing")
                stats.count("simplified-output-evaluated")
    else:
        stats.count("incomplete")
        if out.kind == lib.NUM:
            missing = [v for v in vs if v not in point]
            raise violation(ID, sub, f"value-without-coordinate:{m[0]}", case,
                            f"{where}: coordinates {missing} are missing but at() returned {out.value!r}")
    # bare number / Derivative accept exactly <= 1 variable
    number = 1.25
    o = lib.call(lambda: build(m).at(number))
    d = lib.call(lambda: lib.Derivative(build(m)))
    if len(vs) <= 1:
        if o.kind in (lib.EXC, lib.MISS):
            raise violation(ID, "bare", f"bare-rejected:{o.kind}", case, f"{M.text(m)[:300]} has {len(vs)} variable(s) but at({number}) gave {o!r}")
        if d.kind != lib.OBJ:
            raise violation(ID, "bare", f"derivative-rejected:{d.kind}", case, f"{M.text(m)[:300]} has {len(vs)} variable(s) but Derivative(e) gave {d!r}")
        dn = lib.call(lambda: lib.Derivative(build(m)).at(number))
        if dn.kind in (lib.EXC, lib.MISS):
            raise violation(ID, "bare", f"derivative-at-number:{dn.kind}", case, f"Derivative(e).at({number}) gave {dn!r} for {M.text(m)[:300]}")
        stats.count("single-variable")
    else:
        if o.kind in (lib.NUM, lib.DOM, lib.MISS):
            raise violation(ID, "bare", f"bare-accepted:{o.kind}", case, f"{M.text(m)[:300]} has variables {vs} but at({number}) gave {o!r}")
        if d.kind == lib.OBJ:
            raise violation(ID, "bare", "derivative-accepted", case, f"{M.text(m)[:300]} has variables {vs} but Derivative(e) was constructed")
        stats.count("multi-variable")
    subterm_checks(stats, m, env, case)
    proper = 0 < len([v for v in vs if v in point]) < len(vs)
    odd = any((not n.isascii()) or (not n.isidentifier()) or n in S.LEGAL_SPECIAL for n in vs)
    masked = any(masked_only(m, n) for n in vs)
    for k, flag in (("proper-subset", proper), ("unusual-name", odd), ("masked-variable", masked)):
        if flag:
            stats.count("feature:" + k)
    if proper or odd or masked:
        stats.nontrivial_case(M.digest(M.canon(m), sorted(point)), describe(m, point, variables=vs, d_variable=var))


def walk_objects(e, m, out, seen):
    """(object, model) for every distinct sub-expression object of a built expression."""
    if id(e) in seen:
        return
    seen.add(id(e))
    out.append((e, m))
    t = m[0]
    if t in M.NARY:
        kids = list(e._inners)
    elif t in M.BINARY:
        kids = [e._left, e._right]
    elif t in M.LEAVES:
        kids = []
    else:
        kids = [e._inner]
    for ko, km in zip(kids, M.children(m)):
        walk_objects(ko, km, out, seen)


def subterm_checks(stats, m, env, case):
    """Building a larger expression must not change which coordinates its sub-expressions need: every
    sub-expression OBJECT of the built tree still needs exactly its own variables."""
    e = build(m)
    pairs = []
    walk_objects(e, m, pairs, set())
    for obj, sm in pairs[1:12]:
        svs = M.variables(sm)
        own = {k: env.get(k, 1) for k in svs}
        o = lib.call(lambda: obj.at(lib.Point(**own)))
        if o.kind == lib.MISS:
            raise violation(ID, "subterm", f"subterm-missing:{sm[0]}", case,
                            f"inside {M.text(m)[:200]}: sub-expression {M.text(sm)[:120]} mentions {svs} but at({M.point_text(own)}) raised CoordinateMissing")
        b = lib.call(lambda: obj.at(1.25))
        d = lib.call(lambda: lib.Derivative(obj))
        if len(svs) <= 1:
            if b.kind in (lib.EXC, lib.MISS) or d.kind != lib.OBJ:
                raise violation(ID, "subterm", f"subterm-bare-rejected:{sm[0]}", case,
                                f"after building {M.text(m)[:200]}: its sub-expression {M.text(sm)[:120]} has {len(svs)} variable(s) but at(1.25) gave {b!r} and Derivative(...) gave {d!r}")
        else:
            if b.kind in (lib.NUM, lib.DOM) or d.kind == lib.OBJ:
                raise violation(ID, "subterm", f"subterm-bare-accepted:{sm[0]}", case,
                                f"sub-expression {M.text(sm)[:120]} has variables {svs} but at(1.25) gave {b!r} / Derivative gave {d!r}")
        stats.count("subterm-checks")


def check_name(stats, name, value):
    stats.case()
    case = {"sub": "name", "name": name, "value": M.num_to_json(value)}
    for tag, f in (("Point", lambda: sx.Variable(name).at(lib.Point(**{name: value}))), ("number", lambda: sx.Variable(name).at(value)),
                   ("coordinate", lambda: lib.Point(**{name: value, "other_": 0}).coordinate(name)),
                   ("coordinate-object", lambda: lib.Point(**{name: value}).coordinate(sx.Variable(name)))):
        o = lib.call(f)
        if o.kind != lib.NUM or o.value != value or type(o.value) is not type(value):
            raise violation(ID, "name", f"name:{tag}", case, f"Variable({name!r}) with coordinate {value!r} via {tag} gave {o!r}")
    for tag, f in (("Partial", lambda: lib.Partial(sx.Variable(name), name).at(lib.Point(**{name: value}))),
                   ("Derivative", lambda: lib.Derivative(sx.Variable(name)).at(value)),
                   ("LocatedDifferential", lambda: lib.LocatedDifferential(sx.Variable(name), lib.Point(**{name: value})).component(name))):
        o = lib.call(f)
        if o.kind != lib.NUM or o.value != 1:
            raise violation(ID, "name", f"name:{tag}", case, f"d/d{name} of Variable({name!r}) via {tag} gave {o!r}")
    stats.count("names")
    if not name.isascii() or not name.isidentifier() or name in S.LEGAL_SPECIAL:
        stats.nontrivial_case(M.digest("name", name), {"name": name, "value": repr(value)})


def make_general(stats):
    @given(st.data())
    def test(data):
        pool = data.draw(st.lists(S.legal_names(), min_size=1, max_size=4, unique=True))
        k = data.draw(st.integers(0, 3))
        m = data.draw(S.covering(pool, depth=1)) if k == 0 else data.draw(S.expressions(pool, depth=3))
        vs = M.variables(m)
        env = {n: data.draw(S.coordinate_values()) for n in pool}
        how = data.draw(st.integers(0, 5))
        if how <= 2 or not vs:
            supplied = list(vs)
        elif how == 3:
            supplied = []
        else:
            supplied = data.draw(st.lists(st.sampled_from(vs), unique=True, max_size=len(vs)))
        supplied = data.draw(st.permutations(supplied))
        extra = {}
        if data.draw(st.booleans()):
            for n in data.draw(st.lists(S.legal_names(), max_size=2, unique=True)):
                if n not in vs:
                    extra[n] = data.draw(S.coordinate_values())
        var = data.draw(st.sampled_from(pool + ["absent_variable"]))
        check(stats, m, env, supplied, var, extra)
    return test


def make_masked(stats):
    """Variables that occur only where their value cannot matter."""
    @given(st.data())
    def test(data):
        pool = data.draw(st.lists(S.legal_names(), min_size=2, max_size=3, unique=True))
        hidden = ("Variable", pool[0])
        rest = pool[1:]
        t = data.draw(S.trees(rest, depth=2))
        shape = data.draw(st.integers(0, 5))
        m = [("Multiply", (("Constant", 0), hidden, t)), ("Add", (t, ("Multiply", (hidden, ("Constant", 0))))),
             ("Power", ("Constant", 1), hidden), ("Minus", ("Add", (hidden, t)), hidden), ("Exponential", hidden, 1),
             ("Divide", ("Constant", 0), ("Add", (("NthPower", hidden, 2), ("Constant", 1))))][shape]
        env = {n: data.draw(S.coordinate_values()) for n in pool}
        supplied = list(M.variables(m))
        if data.draw(st.booleans()):
            supplied = [v for v in supplied if v != pool[0]]
        check(stats, m, env, supplied, data.draw(st.sampled_from(pool)), {}, sub="masked")
    return test


def make_names(stats):
    @given(st.data())
    def test(data):
        check_name(stats, data.draw(S.legal_names()), data.draw(S.coordinate_values()))
    return test


def parts(tier):
    n = 15000 if tier == "quick" else 300000
    return [hyp_part("general", make_general, int(n * 0.5)), hyp_part("masked", make_masked, int(n * 0.2)),
            hyp_part("names", make_names, int(n * 0.3))]


def replay(case):
    if case.get("sub") == "name":
        check_name(Stats(), case["name"], M.num_from_json(case["value"]))
        return
    point = case_point(case)
    supplied = [k for k in case["supplied"]]
    extra = {k: v for k, v in point.items() if k not in supplied}
    env = dict(point)
    check(Stats(), case_model(case), env, supplied, case["var"], extra, sub=case.get("sub", "coordinates"))


def self_test(tier, agg):
    tot = {}
    for g in agg.values():
        for k, c in g["counters"].items():
            tot[k] = tot.get(k, 0) + c
    bad = []
    for k in ("feature:proper-subset", "feature:unusual-name", "feature:masked-variable", "complete", "incomplete",
              "single-variable", "multi-variable", "simplified-output-evaluated"):
        if tot.get(k, 0) < 50:
            bad.append(f"C14: class {k} seen fewer than 50 times")
    return bad
