"""C09 - answers do not depend on what was computed before (stateful)."""
from __future__ import annotations
import math
import os
from hypothesis import given, strategies as st
from hypothesis.stateful import RuleBasedStateMachine, rule, precondition, initialize
from harness import strategies as S
from harness import history as H
from harness import redex as RX
from .common import *

ID = "C09"
RULE = ("Hypothesis RuleBasedStateMachine histories (10-40 steps) over a pool of expressions built incrementally from "
        "earlier pool members (so sub-expression OBJECTS are shared between members), persistent Partial / Derivative / "
        "Differential objects (early and late), expressions returned by as_expression() re-entering the pool, and points "
        "that are complete, incomplete (CoordinateMissing part-way) or outside the domain (DomainError part-way).  "
        "Operations: at (Point and bare number), Partial/Derivative/Differential/LocatedDifferential queries early and "
        "late, as_expression, _normalize, queries on persistent objects before/after as_expression.  Oracle after EVERY "
        "operation: the same operation on a freshly built, never-used, unshared deep copy (for a persistent derivative "
        "object: a fresh object replaying only compute_early and whether as_expression() was called) must give the "
        "bit-identical number, the same exception class, or an == expression with equal repr.  Non-trivial = a history in "
        "which an expression sharing nodes with another was queried at a different point than before, or an operation "
        "followed a failed call, or an evaluation followed a simplification; distinct by SHA-1 of the history.  Part 'order' "
        "(process-global state): a list of operations on freshly built expressions, among them one-change siblings with "
        "hash-colliding constants (-1 / -2), runs in order here and in reverse order in a separate process with the same "
        "hash seed; answers must be identical byte for byte.")
ASSUMPTIONS = [
    "same code + same arithmetic on a fresh copy is the model: numbers must be bit-identical",
    "a late derivative object is compared with a fresh object that replays its route-determining history "
    "(constructor arguments, whether as_expression() was called) and nothing else (DESIGN.md 5.3)",
    "KF2: when the library's own step-budget warning fired in either run, only value agreement of the two result "
    "expressions is required (listed finding), not structural equality",
]

NAMES = ["x", "y", "z"]
VALS = [0, 1, -1, 2, -2, 3, 0.5, -0.5, 1.5, 0.25, -3, 4, 2.5, -1.5]


def points_st():
    """complete / incomplete points over NAMES."""
    return st.lists(st.sampled_from(NAMES), min_size=0, max_size=3, unique=True).flatmap(
        lambda ns: st.fixed_dictionaries({n: st.sampled_from(VALS) for n in ns})
    ).map(H.enc_point)


def full_points_st():
    return st.fixed_dictionaries({n: st.sampled_from(VALS) for n in NAMES}).map(H.enc_point)


def any_point():
    return st.integers(0, 4).flatmap(lambda k: points_st() if k == 0 else full_points_st())


class Machine(RuleBasedStateMachine):
    stats = None
    mode = "c09"
    prop = ID

    def __init__(self):
        super().__init__()
        self.w = H.World(self.mode)

    def _apply(self, d):
        try:
            self.w.apply(d)
            if self.mode == "c10":
                self.w.check_snapshots()
        except H.Mismatch as mm:
            case = {"sub": mm.sub, "history": list(self.w.history)}
            raise violation(self.prop, mm.sub, mm.sig, case,
                            mm.message + "  | history: " + " ; ".join(self.w.history_text(12)))

    # -- building the pool ------------------------------------------------------------------------
    BIG = False

    @initialize(data=st.data())
    def first(self, data):
        m = data.draw(S.trees(NAMES, depth=2, const_bias=2))
        self._apply({"op": "add", "node": self.w.encode(m)})
        if self.BIG:
            # a wide product / sum over the first pool member (shared object): differentiating it symbolically exhausts
            # the library's 1000-step budget, the regime in which KF2 lives and next to which other defects can hide
            small = self.w.models[0]
            k = data.draw(st.integers(35, 60))
            t = "Multiply"
            kids = []
            for i in range(k):
                w = data.draw(st.integers(0, 4))
                v = ("Variable", NAMES[i % 3])
                kids.append([("Add", (small, ("Constant", i % 5 + 1))), ("Sine", ("Multiply", (small, v))), ("Negation", ("Negation", v)),
                             ("Multiply", (("Constant", 1), small, v)), ("Cosine", ("Add", (v, small)))][w])
            self._apply({"op": "add", "node": self.w.encode((t, tuple(kids)))})
            self._apply({"op": "as_expression", "i": 1, "var": data.draw(st.sampled_from(NAMES)), "early": False, "route": "Partial"})
            # ... and right afterwards the small shared member must still simplify like a fresh copy
            self._apply({"op": "normalize", "i": 0})
            self._apply({"op": "as_expression", "i": 0, "var": data.draw(st.sampled_from(NAMES)), "early": False,
                         "route": data.draw(st.sampled_from(["Partial", "Differential"]))})

    MAX_POOL = 8

    @precondition(lambda self: len(self.w.models) < self.MAX_POOL)
    @rule(data=st.data())
    def add(self, data):
        pool = list(self.w.models)
        kind = data.draw(st.integers(0, 4))
        if kind == 0:
            m = data.draw(S.trees(NAMES, depth=2, pool=pool, const_bias=2))
        elif kind == 4:
            # a left-hand side of some rewrite rule: the shapes on which the simplifier actually does something
            from harness import redex as RX
            _name, m = data.draw(RX.templates(NAMES))
        else:
            a = data.draw(st.sampled_from(pool))
            b = data.draw(st.sampled_from(pool)) if data.draw(st.booleans()) else data.draw(S.trees(NAMES, depth=1, pool=pool))
            t = data.draw(st.sampled_from(["Add", "Multiply", "Minus", "Divide", "Power", "Negation", "Reciprocal", "Sine",
                                           "NthPower", "NthRoot", "Logarithm", "Exponential", "Cosine"]))
            if t in M.NARY:
                m = (t, (a, b, a)) if data.draw(st.booleans()) else (t, (a, b))
            elif t in M.BINARY:
                m = (t, a, b)
            elif t in M.PARAM_N:
                m = (t, a, data.draw(st.sampled_from([1, 2, 3, 4])))
            elif t == "Logarithm":
                m = (t, a, data.draw(st.sampled_from([math.e, 2, 0.5])))
            elif t == "Exponential":
                m = (t, a, data.draw(st.sampled_from([math.e, 2, 0.5, 1])))
            else:
                m = (t, a)
        if M.size(m) > 250:
            return
        self._apply({"op": "add", "node": self.w.encode(m)})

    def _idx(self, data):
        return data.draw(st.integers(0, len(self.w.models) - 1))

    # -- stateless queries ------------------------------------------------------------------------
    @rule(data=st.data(), p=any_point(), bare=st.booleans())
    def at(self, data, p, bare):
        self._apply({"op": "at", "i": self._idx(data), "point": p, "bare": bare and bool(p)})

    @rule(data=st.data(), p=any_point(), var=st.sampled_from(NAMES + ["q"]), early=st.booleans())
    def partial_at(self, data, p, var, early):
        self._apply({"op": "partial_at", "i": self._idx(data), "point": p, "var": var, "early": early})

    @rule(data=st.data(), p=any_point(), var=st.sampled_from(NAMES))
    def partial_asexpr_at(self, data, p, var):
        self._apply({"op": "partial_asexpr_at", "i": self._idx(data), "point": p, "var": var})

    @rule(data=st.data(), p=any_point(), early=st.booleans())
    def derivative_at(self, data, p, early):
        self._apply({"op": "derivative_at", "i": self._idx(data), "point": p, "early": early})

    @rule(data=st.data(), p=any_point(), var=st.sampled_from(NAMES + ["q"]))
    def located(self, data, p, var):
        self._apply({"op": "located", "i": self._idx(data), "point": p, "var": var})

    @rule(data=st.data(), p=any_point(), var=st.sampled_from(NAMES), early=st.booleans())
    def differential_at(self, data, p, var, early):
        self._apply({"op": "differential_at", "i": self._idx(data), "point": p, "var": var, "early": early})

    @rule(data=st.data(), p=any_point(), var=st.sampled_from(NAMES), early=st.booleans())
    def component_at(self, data, p, var, early):
        self._apply({"op": "component_at", "i": self._idx(data), "point": p, "var": var, "early": early})

    @rule(data=st.data(), var=st.sampled_from(NAMES), early=st.booleans(), route=st.sampled_from(["Partial", "Derivative", "Differential"]))
    def as_expression(self, data, var, early, route):
        self._apply({"op": "as_expression", "i": self._idx(data), "var": var, "early": early, "route": route})

    @rule(data=st.data())
    def normalize(self, data):
        self._apply({"op": "normalize", "i": self._idx(data)})

    # -- persistent derivative objects --------------------------------------------------------------
    @precondition(lambda self: len(self.w.derivs) < 5)
    @rule(data=st.data(), var=st.sampled_from(NAMES), early=st.booleans(), kind=st.sampled_from(["Partial", "Derivative", "Differential", "Partial"]))
    def make_deriv(self, data, var, early, kind):
        self._apply({"op": "make_deriv", "i": self._idx(data), "var": var, "early": early, "kind": kind})

    @precondition(lambda self: len(self.w.derivs) > 0)
    @rule(data=st.data(), p=any_point(), bare=st.booleans())
    def deriv_at(self, data, p, bare):
        j = data.draw(st.integers(0, len(self.w.derivs) - 1))
        self._apply({"op": "deriv_at", "j": j, "point": p, "bare": bare and bool(p)})

    @precondition(lambda self: len(self.w.derivs) > 0)
    @rule(data=st.data())
    def deriv_as_expression(self, data):
        j = data.draw(st.integers(0, len(self.w.derivs) - 1))
        self._apply({"op": "deriv_as_expression", "j": j})

    @precondition(lambda self: any(r["kind"] == "Differential" for r in self.w.derivs))
    @rule(data=st.data(), p=any_point())
    def deriv_component(self, data, p):
        js = [j for j, r in enumerate(self.w.derivs) if r["kind"] == "Differential"]
        self._apply({"op": "deriv_component", "j": data.draw(st.sampled_from(js)), "point": p})

    @precondition(lambda self: any(d["op"] not in ("add", "make_deriv", "point_mutation") for d in self.w.history))
    @rule(data=st.data())
    def repeat_earlier(self, data):
        """'fail half-way, then retry': re-issue an earlier query exactly (most often the last one)."""
        qs = [d for d in self.w.history if d["op"] not in ("add", "make_deriv", "point_mutation")]
        d = qs[-1] if data.draw(st.integers(0, 2)) else data.draw(st.sampled_from(qs))
        self.w.features.add("repeated-query")
        self._apply(dict(d))

    def teardown(self):
        st_ = self.stats
        if st_ is None:
            return
        st_.case()
        st_.count("operations", self.w.ops)
        for f in self.w.features:
            st_.count("feature:" + f)
        for d in self.w.history:
            st_.count("op:" + d["op"])
        if getattr(self.w, "never_used_compared", 0):
            st_.count("never-used-object-comparisons", self.w.never_used_compared)
        if self.w.known_kf2:
            st_.excluded_known["KF2"] = st_.excluded_known.get("KF2", 0) + self.w.known_kf2
        interesting = self.w.features & {"shared-other-point", "after-failure", "after-simplification"}
        if interesting and self.w.ops >= 3:
            st_.nontrivial_case(M.digest(repr(self.w.history)),
                                {"history": self.w.history_text(14), "features": sorted(self.w.features)})


def make_machine(stats):
    class C09Machine(Machine):
        pass
    C09Machine.stats = stats
    return C09Machine


def make_budget(stats):
    class C09Budget(Machine):
        BIG = True
        MAX_POOL = 5
    C09Budget.stats = stats
    return C09Budget


def make_soak(stats):
    """Few objects, very many operations on them (400 steps): state that only goes wrong after it has been touched
    hundreds of times (counters, budgets, growing caches)."""
    class C09Soak(Machine):
        MAX_POOL = 3

        def __init__(self):
            super().__init__()
            self.w.adopt_results = False       # stay on the same few objects

        @rule(data=st.data(), var=st.sampled_from(NAMES), route=st.sampled_from(["Partial", "Partial", "Differential", "early"]),
              k=st.sampled_from([50, 150, 400]))
        def burst(self, data, var, route, k):
            """the same simplification over and over on the same operand (fresh wrapper objects each time)"""
            i = self._idx(data)
            for _ in range(k):
                if route == "early":
                    self._apply({"op": "partial_at", "i": i, "point": H.enc_point({n: 1.5 for n in NAMES}), "var": var, "early": True})
                else:
                    self._apply({"op": "as_expression", "i": i, "var": var, "early": False, "route": route})
    C09Soak.stats = stats
    return C09Soak


# ---------------------------------------------------------------------------------------------
# 'order' part: history kept in PROCESS-GLOBAL state.  The never-used copy of the stateful parts is replayed in the same
# process, so a module-level memo (say, keyed by a hash that collides) fools both sides alike.  Here a list of
# operations, each on a freshly built expression, runs in order in this process and in REVERSE order in a separate
# process with the same PYTHONHASHSEED: answers on fresh objects may not depend on what the process did before.

_order_worker = {}


def order_worker():
    import subprocess
    import sys
    key = os.getpid()
    if key not in _order_worker:
        env = dict(os.environ)
        env["PYTHONHASHSEED"] = os.environ.get("PYTHONHASHSEED", "0")
        _order_worker[key] = subprocess.Popen([sys.executable, "-B", "-m", "harness.c09worker"], stdin=subprocess.PIPE,
                                              stdout=subprocess.PIPE, stderr=subprocess.DEVNULL, env=env,
                                              cwd=os.path.dirname(os.path.dirname(os.path.dirname(os.path.abspath(__file__)))),
                                              text=True, bufsize=1)
    return _order_worker[key]


def check_order(stats, ops, sub="order"):
    import json
    from harness import c09worker
    stats.case()
    ops = [dict(op, model=M.to_json(safe(M.from_json(op["model"])))) for op in ops]
    w = order_worker()
    w.stdin.write(json.dumps(list(reversed(ops))) + "\n")
    w.stdin.flush()
    mine = c09worker.run_ops(ops)
    line = w.stdout.readline()
    if not line:
        _order_worker.pop(os.getpid(), None)
        raise HarnessError("C09 order worker died")
    ans = json.loads(line)
    if "error" in ans:
        raise HarnessError(f"C09 order worker failed: {ans['error']} {ans.get('trace', '')}")
    theirs = list(reversed(ans["ok"]))
    for k, (a, b) in enumerate(zip(mine, theirs)):
        stats.count("op:order:" + ops[k]["op"])
        if a != b:
            case = make_case(sub, None, None, ops=ops)
            raise violation(ID, sub, f"order:{ops[k]['op']}", case,
                            f"{ops[k]['op']} on a freshly built {M.text(M.from_json(ops[k]['model']))[:250]} (operation {k + 1} of {len(ops)}): "
                            f"after the earlier operations of the list this process answers {a[:300]}, a process that ran the "
                            f"list in reverse order answers {b[:300]} (same hash seed; every operation builds its own objects)")
    canon = [M.canon(M.from_json(op["model"])) for op in ops]
    if len(set(map(repr, canon))) >= 2:
        stats.nontrivial_case(M.digest([repr(c) for c in canon], [op["op"] for op in ops]),
                              {"operations": [f"{op['op']} {M.text(M.from_json(op['model']))[:120]}" for op in ops[:5]]})


def make_order(stats):
    from harness import c09worker
    from harness import mutate_model as MM

    @given(st.data())
    def test(data):
        names = ["x", "y"]
        base = data.draw(st.one_of(S.expressions(names, depth=2), RX.templates(names).map(lambda t: t[1])))
        # colliding constants by construction: hash(-1) == hash(-2) in CPython
        if data.draw(st.booleans()):
            c = ("Constant", data.draw(st.sampled_from([-1, -2, -1.0, -2.0])))
            base = data.draw(st.sampled_from([("Multiply", (c, base)), ("Add", (base, c)), ("Power", base, c), ("Exponential", ("Multiply", (c, base)), 2)]))
        models = [base]
        for _ in range(data.draw(st.integers(1, 4))):
            src = data.draw(st.sampled_from(models))
            sib = data.draw(MM.sibling(src, names))
            models.append(sib[1] if sib else data.draw(S.expressions(names, depth=2)))
        # every Constant(-1) <-> Constant(-2) swap of the base as well
        def swap(x):
            if x[0] == "Constant" and x[1] in (-1, -2):
                return ("Constant", MM.COLLIDE[int(x[1])])
            if x[0] in M.LEAVES:
                return x
            return M.with_children(x, [swap(c) for c in M.children(x)])
        if data.draw(st.booleans()):
            models.insert(data.draw(st.integers(0, len(models))), swap(base))
        point = data.draw(S.points(names, extra=False))
        ops = []
        for m in models:
            for _ in range(data.draw(st.integers(1, 2))):
                ops.append({"op": data.draw(st.sampled_from(c09worker.OPS)), "model": M.to_json(m), "var": data.draw(st.sampled_from(names)),
                            "point": [[k, M.num_to_json(v)] for k, v in point.items()]})
        check_order(stats, ops)
    return test


def parts(tier):
    n = 1500 if tier == "quick" else 30000
    return [machine_part("histories", make_machine, n, steps=30),
            machine_part("long-histories", make_machine, max(16, n // 10), steps=80),
            machine_part("soak", make_soak, 48 if tier == "quick" else 480, steps=250),
            machine_part("budget", make_budget, 48 if tier == "quick" else 320, steps=6),
            hyp_part("order", make_order, 1600 if tier == "quick" else 30000)]


def replay(case):
    if case.get("sub") == "order":
        check_order(Stats(), case["ops"])
        return
    try:
        H.replay_history("c09", case["history"])
    except H.Mismatch as mm:
        raise violation(ID, mm.sub, mm.sig, case, mm.message)


def self_test(tier, agg):
    tot = {}
    for g in agg.values():
        for k, c in g["counters"].items():
            tot[k] = tot.get(k, 0) + c
    bad = []
    for f in ("shared", "shared-other-point", "after-failure", "after-simplification"):
        if tot.get("feature:" + f, 0) < 20:
            bad.append(f"C09: feature {f} in fewer than 20 histories")
    for op in ("at", "partial_at", "located", "differential_at", "as_expression", "deriv_at", "deriv_as_expression", "make_deriv"):
        if tot.get("op:" + op, 0) < 50:
            bad.append(f"C09: operation {op} executed fewer than 50 times")
    return bad
