"""C18 - results are reproducible across processes, hash seeds and argument spelling."""
from __future__ import annotations
import json
import os
import subprocess
import sys
from hypothesis import given, strategies as st
from harness import strategies as S
from harness import c18worker
from .common import *

ID = "C18"
RULE = ("Each shard keeps 3 persistent worker PROCESSES started with distinct PYTHONHASHSEED values (derived from "
        "VERIF_SEED and the shard: 48 distinct seeds per run) plus its own process (hash seed 0).  Every generated case "
        "(expression over 3-6 multi-character variable names, point) is sent to all of them, each with its own generated "
        "permutation of the coordinate order and of the order in which the Variable objects are first created.  Battery "
        "per process: at, _normalize, 6 numeric derivative routes (early and late) and 2 as_expression routes (forward and reverse symbolic) for up to 3 variables, repr.  "
        "Oracle: all processes' answers are identical byte for byte (float.hex of numbers, repr of expressions, exception "
        "class names).  Non-trivial = >= 3 variables occur and some answer is an expression or a gradient component of a "
        "multi-variable expression; distinct by SHA-1 of (canonical model, point).  Part 'order-sensitive': sums / products of "
        "3-7 terms with generic, partly cancelling float coefficients and equal-but-distinct repeated terms (any change of "
        "combination order changes bits); part 'incomplete': points lacking >= 2 variables (the message of the library's "
        "own CoordinateMissing / DomainError, i.e. which coordinate or sub-expression it names, is part of the answer).")
ASSUMPTIONS = ["covers the hash seeds actually run (reported in the evidence), not all 2^32",
               "worker processes import smoothmath from the same working tree as the parent"]

VARS = ["alpha", "beta", "gamma", "delta", "omega", "kappa", "x1", "y_2", "zeta", "theta", "mu", "Ab"]
# names that tie under case folding / differ in one character / share a prefix: any "almost total" ordering of names
# (case-insensitive sort, sort by length, by first letter ...) falls back to set order exactly for such names
TIED = [["Alpha", "alpha", "ALPHA"], ["x1", "X1", "x2"], ["rate", "Rate", "rates"], ["ab", "ba", "aB"], ["tmax", "tMax", "t_max"]]


def draw_names(data, k):
    if data.draw(st.integers(0, 2)) == 0:
        group = list(data.draw(st.sampled_from(TIED)))
        rest = [v for v in data.draw(st.permutations(VARS)) if v not in group]
        names = (group + rest)[:max(k, len(group))]
        return list(data.draw(st.permutations(names)))
    return list(data.draw(st.permutations(VARS))[:k])
NWORKERS = 3
VERIF = os.path.dirname(os.path.dirname(os.path.dirname(os.path.abspath(__file__))))


class Workers:
    def __init__(self, seeds):
        self.seeds = list(seeds)
        self.procs = []
        for hs in self.seeds:
            env = dict(os.environ)
            env["PYTHONHASHSEED"] = str(hs)
            p = subprocess.Popen([sys.executable, "-B", "-m", "harness.c18worker"], stdin=subprocess.PIPE, stdout=subprocess.PIPE,
                                 stderr=subprocess.DEVNULL, env=env, cwd=VERIF, text=True, bufsize=1)
            self.procs.append(p)

    def send(self, payloads):
        for p, payload in zip(self.procs, payloads):
            p.stdin.write(json.dumps(payload) + "\n")
            p.stdin.flush()

    def receive(self):
        outs = []
        for p in self.procs:
            line = p.stdout.readline()
            if not line:
                raise HarnessError("C18 worker process died")
            outs.append(json.loads(line))
        return outs

    def close(self):
        for p in self.procs:
            try:
                p.stdin.write("QUIT\n")
                p.stdin.flush()
                p.stdin.close()
            except Exception:  # noqa
                pass
        for p in self.procs:
            try:
                p.wait(timeout=5)
            except Exception:  # noqa
                p.kill()


_workers = {}


def workers_for(stats, seeds=None):
    key = os.getpid()
    if key not in _workers:
        if seeds is None:
            seed = int(os.environ.get("VERIF_RUN_SEED", os.environ.get("VERIF_SEED", "1")) or "1")
            shard = int(os.environ.get("VERIF_SHARD", "0"))
            base = (seed * 7919 + shard * 104729) % (2 ** 31)
            seeds = [(base * 31 + 1 + 977 * i) % 4294967295 + 1 for i in range(NWORKERS)]
        _workers[key] = Workers(seeds)
        for s in seeds:
            stats.count("hash-seed-used")
        stats.hash_seeds = seeds
    return _workers[key]


def payload(m, names, point_order, point, creation_order):
    return {"model": M.to_json(m), "names": names, "point": [[k, M.num_to_json(point[k])] for k in point_order],
            "creation_order": creation_order}


def check(stats, m, names, point, orders, sub="reproducible", seeds=None):
    m = safe(m)
    stats.case()
    w = workers_for(stats, seeds)
    case = make_case(sub, m, point, names=names, orders=orders, hash_seeds=list(w.seeds))
    payloads = [payload(m, names, o["point"], point, o["creation"]) for o in orders]
    w.send(payloads[1:1 + NWORKERS])
    local = {"ok": c18worker.battery(payloads[0])}
    remote = w.receive()
    answers = [local] + remote
    for a in answers:
        if "error" in a:
            raise HarnessError(f"C18 worker failed: {a['error']} {a.get('trace', '')}")
    ref = answers[0]["ok"]
    for k, a in enumerate(answers[1:], 1):
        got = a["ok"]
        if got != ref:
            diff = next(((x, y) for x, y in zip(ref, got) if x != y), None)
            seed = w.seeds[k - 1]
            raise violation(ID, sub, f"differs:{diff[0][0].split('[')[0] if diff else '?'}", case,
                            f"{M.text(m)[:300]} at {M.point_text(point)}: process with PYTHONHASHSEED={seed}, coordinate order "
                            f"{orders[k]['point']}, creation order {orders[k]['creation']} answers {diff[1] if diff else '?'} where the "
                            f"reference process (hash seed 0, orders {orders[0]}) answers {diff[0] if diff else '?'}")
    vs = M.variables(m)
    stats.count(f"variables:{min(len(vs), 6)}")
    has_expr = any(v.startswith("expr:") for _l, v in ref)
    if len(vs) >= 3 and has_expr:
        stats.nontrivial_case(M.digest(M.canon(m), sorted(point.items())),
                              {"expr": M.text(m)[:300], "point": M.point_text(point), "answers": len(ref),
                               "sample_answer": next((v[:160] for _l, v in ref if v.startswith("expr:")), "")})


def make_general(stats):
    @given(st.data())
    def test(data):
        k = data.draw(st.integers(3, 6))
        names = draw_names(data, k)
        how = data.draw(st.integers(0, 4))
        if how <= 1:
            m = data.draw(S.covering(names, depth=1))
        elif how == 2:
            m = data.draw(S.dags(names, max_defs=4, depth=2, const_bias=2))
        elif how == 3:
            # sums of logs / products of powers, roots, exponentials over several variables: the consolidation rules
            t = data.draw(st.sampled_from(["log", "pow", "root", "exp"]))
            kids = []
            for n in names:
                v = ("Variable", n)
                kids.append({"log": ("Logarithm", v, data.draw(st.sampled_from([2, 10, 2]))),
                             "pow": ("NthPower", v, data.draw(st.sampled_from([2, 3, 2]))),
                             "root": ("NthRoot", v, data.draw(st.sampled_from([2, 3, 3]))),
                             "exp": ("Exponential", v, data.draw(st.sampled_from([2, 10, 2])))}[t])
            m = ("Add" if t == "log" else "Multiply", tuple(kids))
            if data.draw(st.booleans()):
                m = ("Multiply", (m, ("Negation", ("Variable", names[0])), ("Reciprocal", ("Variable", names[1]))))
        else:
            m = data.draw(S.expressions(names, depth=3))
        point = {n: data.draw(S.coordinate_values()) for n in names}
        orders = [{"point": list(data.draw(st.permutations(names))), "creation": list(data.draw(st.permutations(names)))}
                  for _ in range(NWORKERS + 1)]
        check(stats, m, names, point, orders)
    return test


def make_extreme(stats):
    """Zero, huge and tiny coordinates: several sub-computations fail in different ways (DomainError vs
    OverflowError), so any order dependence of 'which failure surfaces first' becomes observable."""
    @given(st.data())
    def test(data):
        k = data.draw(st.integers(3, 5))
        names = draw_names(data, k)
        m = data.draw(S.covering(names, depth=1, tags=("Multiply", "Divide", "Add", "Reciprocal", "NthPower", "Logarithm",
                                                        "NthRoot", "Minus", "Power", "Exponential")))
        vals = [0, 0.0, 1e-200, -1e-180, 1e200, -1e150, 1, 2, -1, 1e-308, 3.5]
        point = {n: data.draw(st.sampled_from(vals)) for n in names}
        orders = [{"point": list(data.draw(st.permutations(names))), "creation": list(data.draw(st.permutations(names)))}
                  for _ in range(NWORKERS + 1)]
        check(stats, m, names, point, orders, sub="extreme")
    return test


GENERIC = [0.1, 0.2, 0.3, 0.7, 1.1, 1 / 3, 1e-3, 2.5, 1e16, -1e16, 1.0, -0.1, 3.3, 1e-17]


def make_order_sensitive(stats):
    """Sums and products of 3-7 terms with generic (non-dyadic, partly cancelling) float coefficients over one or two
    of the variables, some terms repeated as equal-but-distinct objects: floating-point addition and multiplication
    are not associative, so ANY change in the order in which terms or contributions are combined changes bits."""
    @given(st.data())
    def test(data):
        k = data.draw(st.integers(3, 4))
        names = draw_names(data, k)
        main = data.draw(st.sampled_from(names))

        def term():
            v = ("Variable", main if data.draw(st.integers(0, 2)) else data.draw(st.sampled_from(names)))
            c = ("Constant", data.draw(st.sampled_from(GENERIC)))
            f = data.draw(st.sampled_from(["v", "v", "sq", "sin", "exp", "recip"]))
            fv = {"v": v, "sq": ("NthPower", v, 2), "sin": ("Sine", v), "exp": ("Exponential", v, 2), "recip": ("Reciprocal", v)}[f]
            return data.draw(st.sampled_from([("Multiply", (c, fv)), ("Multiply", (fv, c)), ("Divide", fv, c), fv]))
        terms = [term() for _ in range(data.draw(st.integers(3, 6)))]
        for _ in range(data.draw(st.integers(0, 2))):
            t = data.draw(st.sampled_from(terms))
            terms.insert(data.draw(st.integers(0, len(terms))), M.clone(t))      # an equal but distinct object
        tag = data.draw(st.sampled_from(["Add", "Add", "Multiply"]))
        m = (tag, tuple(terms))
        w = data.draw(st.integers(0, 3))
        if w == 0:
            m = ("Multiply", (("Variable", data.draw(st.sampled_from(names))), m))
        elif w == 1:
            m = ("Add", (m, ("Multiply", tuple(("Variable", n) for n in names))))
        point = {n: data.draw(st.sampled_from([0.1, 0.7, 1.3, -2.3, 3.0, 1e-3, 12.7, 0.9999999])) for n in names}
        orders = [{"point": list(data.draw(st.permutations(names))), "creation": list(data.draw(st.permutations(names)))}
                  for _ in range(NWORKERS + 1)]
        stats.count("order-sensitive-cases")
        check(stats, m, names, point, orders, sub="order-sensitive")
    return test


def make_incomplete(stats):
    """Points lacking two or more of the variables: which coordinate the library reports as missing (and whether a
    DomainError met earlier wins) must not depend on the hash seed either."""
    @given(st.data())
    def test(data):
        k = data.draw(st.integers(3, 6))
        names = draw_names(data, k)
        m = data.draw(st.one_of(S.covering(names, depth=1), S.expressions(names, depth=2)))
        present = data.draw(st.lists(st.sampled_from(names), unique=True, min_size=0, max_size=max(0, k - 2)))
        point = {n: data.draw(st.sampled_from([0, 1, 2.5, -1, 0.5])) for n in present}
        orders = [{"point": list(data.draw(st.permutations(present))), "creation": list(data.draw(st.permutations(names)))}
                  for _ in range(NWORKERS + 1)]
        stats.count("incomplete-point-cases")
        check(stats, m, names, point, orders, sub="incomplete")
    return test


def parts(tier):
    n = 1600 if tier == "quick" else 30000
    return [hyp_part("general", make_general, int(n * 0.45)), hyp_part("extreme", make_extreme, int(n * 0.3)),
            hyp_part("order-sensitive", make_order_sensitive, int(n * 0.2)), hyp_part("incomplete", make_incomplete, int(n * 0.15))]


def replay(case):
    names = case["names"]
    check(Stats(), case_model(case), names, case_point(case), case["orders"], seeds=case.get("hash_seeds"))


def self_test(tier, agg):
    c = agg.get("general", {}).get("counters", {})
    bad = []
    if sum(c.get(f"variables:{k}", 0) for k in (3, 4, 5, 6)) < 200:
        bad.append("C18: fewer than 200 cases with >= 3 occurring variables")
    if c.get("hash-seed-used", 0) < 3:
        bad.append("C18: fewer than 3 worker hash seeds")
    return bad
