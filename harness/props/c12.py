"""C12 - equality is structural, an equivalence, and consistent with hashing."""
from __future__ import annotations
from hypothesis import given, strategies as st
from harness import strategies as S
from harness import mutate_model as MM
from .common import *

ID = "C12"
RULE = ("Generated pairs and triples of expressions (independent trees, separately built clones, one-change siblings: "
        "one parameter, one leaf, one argument swap, one arity change, one constructor, one int<->float spelling), "
        "Points (permuted coordinate order, int/float spellings, one coordinate changed/added/removed), and "
        "Partial/Derivative/Differential/LocatedDifferential objects over them, plus foreign objects (None, numbers, "
        "strings, tuples, other smoothmath types, an object whose __eq__ raises).  Oracle = canonical-model equality "
        "written independently: (a == b) <=> canon(a) == canon(b); != is its negation; reflexive, symmetric, transitive "
        "on the generated triples; a == b => hash(a) == hash(b) and set/dict lookups agree; comparison with foreign "
        "objects returns False and never raises.  Non-trivial = one-change sibling pairs and equal-but-differently-"
        "spelled pairs; distinct by SHA-1 of the two canonical models.")
ASSUMPTIONS = ["numerically equal int/float spellings are equal (2 == 2.0), as the property states",
               "finite numeric content only"]


class Raiser:
    def __eq__(self, other):
        raise RuntimeError("foreign __eq__ called")

    def __hash__(self):
        return 7


def lookalikes(e):
    """Foreign objects whose class merely has the same NAME as e's class (another library's Add / Negation ...): one
    without any attributes, one that carries copies of e's instance attributes."""
    bare = type(type(e).__name__, (), {})()
    clone = type(type(e).__name__, (), {})()
    for k, v in vars(e).items():
        try:
            setattr(clone, k, v)
        except Exception:  # noqa
            pass
    return [bare, clone]


def foreign_objects(e):
    return lookalikes(e) + [None, 0, 1, 2.5, "x", "Variable(\"x\")", (), (e,), [e], {"a": 1}, object(), Raiser(), type(e), lib.Point(x=1),
            lib.Partial(e, "x"), lib.Differential(e), True, NotImplemented, Ellipsis, float("nan")]


def eq_outcome(a, b):
    """(a == b, a != b) as evaluated by Python, or the exception."""
    try:
        r1 = a == b
        r2 = a != b
    except Exception as ex:  # noqa
        return ("raised", type(ex).__name__)
    return (r1, r2)


def expect_pair(stats, a, b, want_equal, desc, case, sub):
    out = eq_outcome(a, b)
    rev = eq_outcome(b, a)
    if out != (want_equal, not want_equal) or rev != (want_equal, not want_equal):
        raise violation(ID, sub, f"eq:{sub}:{desc}:{want_equal}", case,
                        f"{desc}: a = {repr(a)[:200]}, b = {repr(b)[:200]}: structurally {'equal' if want_equal else 'different'} "
                        f"but (a==b, a!=b) = {out}, (b==a, b!=a) = {rev}")
    if want_equal:
        try:
            ha, hb = hash(a), hash(b)
        except Exception as ex:  # noqa
            raise violation(ID, sub, f"hash-raises:{sub}", case, f"{desc}: hash raised {type(ex).__name__}: {ex}")
        if ha != hb:
            raise violation(ID, sub, f"hash:{sub}:{desc}", case,
                            f"{desc}: a = {repr(a)[:200]} and b = {repr(b)[:200]} are equal but hash to {ha} and {hb}")
        if b not in {a} or {a: 1}.get(b) != 1:
            raise violation(ID, sub, f"set:{sub}:{desc}", case, f"{desc}: equal objects do not find each other in a set/dict")
    else:
        if b in {a: 1}:
            raise violation(ID, sub, f"set-false-hit:{sub}:{desc}", case, f"{desc}: unequal objects collide in a dict lookup")


def check_expressions(stats, ma, mb, mc, kind, sub="expr"):
    ma, mb, mc = safe(ma), safe(mb), safe(mc)      # early derivative objects simplify their operand
    stats.case()
    case = make_case(sub, ma, None, b=M.to_json(mb), c=M.to_json(mc), kind=kind)
    a, b, c = fresh(ma), fresh(mb), fresh(mc)
    a2 = fresh(ma)
    ca, cb, cc = M.canon(ma), M.canon(mb), M.canon(mc)
    expect_pair(stats, a, a, True, "reflexive", case, sub)
    expect_pair(stats, a, a2, True, "clone", case, sub)
    expect_pair(stats, a, b, ca == cb, kind, case, sub)
    expect_pair(stats, b, c, cb == cc, "pair-bc", case, sub)
    expect_pair(stats, a, c, ca == cc, "pair-ac", case, sub)
    # transitivity on what Python reports
    if (a == b) and (b == c) and not (a == c):
        raise violation(ID, sub, "transitivity", case, f"a == b and b == c but a != c for {repr(a)[:150]}, {repr(b)[:150]}, {repr(c)[:150]}")
    for f in foreign_objects(a):
        out = eq_outcome(a, f)
        if out != (False, True):
            raise violation(ID, "foreign", f"foreign:{type(f).__name__}:{ma[0]}", case,
                            f"{repr(a)[:200]} compared with foreign object {type(f).__name__} gave {out}, expected (False, True)")
    stats.count("kind:" + kind + (":equal" if ca == cb else ":unequal"))
    # derivative objects over the pair
    deriv_pairs(stats, a, b, ca == cb, case)
    if kind in MM.KINDS:
        stats.nontrivial_case(M.digest(ca, cb), {"a": M.text(ma)[:300], "b": M.text(mb)[:300], "kind": kind, "equal": ca == cb})


def deriv_pairs(stats, a, b, same, case):
    for var_a, var_b in (("x", "x"), ("x", "y"), ("x", lib_variable("x")), ("x", "x_1"), ("ab", "ac"), ("ab", "cb"),
                         ("x", "X"), ("x1", lib_variable("x2"))):
        vb = var_b if isinstance(var_b, str) else var_b
        name_b = vb if isinstance(vb, str) else vb.name
        expect_pair(stats, lib.Partial(a, var_a), lib.Partial(b, vb, compute_early=False), same and var_a == name_b,
                    "Partial", case, "deriv")
    # equality must not depend on compute_early, on whether as_expression() was called, or on the route an object came by
    for va in (("x",) if stats.evaluations % 4 == 0 else ()):      # every fourth case: it simplifies both expressions five times
        objs_a = []
        for make in (lambda e: lib.Partial(e, va), lambda e: lib.Partial(e, va, compute_early=True),
                     lambda e: lib.Differential(e, compute_early=True).component(va), lambda e: lib.Differential(e).component(va),
                     lambda e: _with_expression(lib.Partial(e, va))):
            o = lib.call(lambda: make(a))
            p2 = lib.call(lambda: make(b))
            if o.kind == lib.OBJ and p2.kind == lib.OBJ:
                objs_a.append((o.value, p2.value))
        for i, (oa, _ob) in enumerate(objs_a):
            for j, (_oa, ob) in enumerate(objs_a):
                expect_pair(stats, oa, ob, same, f"Partial-routes:{i}:{j}", case, "deriv")
    for p in lookalikes(lib.Partial(a, "x")) + lookalikes(lib.Differential(a)):
        out = eq_outcome(lib.Partial(a, "x"), p) if type(p).__name__ == "Partial" else eq_outcome(lib.Differential(a), p)
        if out != (False, True):
            raise violation(ID, "foreign", f"foreign-lookalike:{type(p).__name__}", case, f"a same-named foreign {type(p).__name__} object compared {out}")
    expect_pair(stats, lib.Differential(a), lib.Differential(b), same, "Differential", case, "deriv")
    expect_pair(stats, lib.Partial(a, "x"), lib.Differential(b), False, "Partial-vs-Differential", case, "deriv")
    if len(a._variable_names) <= 1 and len(b._variable_names) <= 1:
        expect_pair(stats, lib.Derivative(a), lib.Derivative(b), same, "Derivative", case, "deriv")
    stats.count("deriv-pairs")


def _with_expression(partial):
    partial.as_expression()
    return partial


def lib_variable(name):
    import smoothmath.expression as sx
    return sx.Variable(name)


def make_pairs(stats):
    @given(st.data())
    def test(data):
        names = data.draw(S.name_lists(1, 3))
        ma = data.draw(S.expressions(names, depth=3))
        how = data.draw(st.integers(0, 9))
        kind = "independent"
        mb = None
        if how < 7:
            sib = data.draw(MM.sibling(ma, names))
            if sib is not None:
                kind, mb, _eq = sib
        if mb is None:
            mb = data.draw(S.expressions(names, depth=2))
            kind = "independent"
        if data.draw(st.booleans()):
            sib2 = data.draw(MM.sibling(mb, names))
            mc = sib2[1] if sib2 is not None else ma
        else:
            mc = ma
        check_expressions(stats, ma, mb, mc, kind)
    return test


# -- points ---------------------------------------------------------------------------------------

def check_points(stats, pa, pb, kind):
    stats.case()
    case = {"sub": "point", "a": M.point_to_json(pa), "b": M.point_to_json(pb), "kind": kind}
    A, B = lib.Point(**pa), lib.Point(**pb)
    want = (set(pa) == set(pb)) and all(pa[k] == pb[k] for k in pa)
    expect_pair(stats, A, B, want, "Point:" + kind, case, "point")
    expect_pair(stats, A, lib.Point(**dict(reversed(list(pa.items())))), True, "Point:reordered", case, "point")
    for f in lookalikes(A) + [None, 1, "Point(x=1)", (), dict(pa), Raiser(), lib_variable("x")]:
        out = eq_outcome(A, f)
        if out != (False, True):
            raise violation(ID, "foreign", f"foreign-point:{type(f).__name__}", case, f"{A!r} vs {type(f).__name__}: {out}")
    # located differentials over a polynomial (defined everywhere)
    import smoothmath.expression as sx
    names = sorted(set(pa) | set(pb))
    e1 = sx.Add(*[sx.Multiply(sx.Variable(n), sx.Variable(n)) for n in names]) if names else sx.Constant(1)
    e2 = sx.Add(*[sx.Multiply(sx.Variable(n), sx.Variable(n)) for n in names]) if names else sx.Constant(1)
    if set(pa) == set(pb):
        expect_pair(stats, lib.LocatedDifferential(e1, A), lib.LocatedDifferential(e2, B), want, "LocatedDifferential", case, "point")
        expect_pair(stats, lib.LocatedDifferential(e1, A), lib.LocatedDifferential(sx.Negation(e2), A), False, "LocatedDifferential-expr", case, "point")
        expect_pair(stats, lib.Differential(e1).at(A), lib.LocatedDifferential(e2, B), want, "Differential.at-vs-Located", case, "point")
    stats.count("point:" + kind + (":equal" if want else ":unequal"))
    stats.nontrivial_case(M.digest(sorted(pa.items(), key=repr), sorted(pb.items(), key=repr), kind),
                          {"a": M.point_text(pa), "b": M.point_text(pb), "kind": kind, "equal": want})


def make_points(stats):
    @given(st.data())
    def test(data):
        names = data.draw(st.lists(S.legal_names(), min_size=0, max_size=4, unique=True))
        pa = {n: data.draw(S.coordinate_values()) for n in names}
        kind = data.draw(st.sampled_from(["permuted", "respelled", "one-value", "extra", "missing", "renamed", "independent"]))
        pb = dict(pa)
        if kind == "permuted":
            pb = {k: pa[k] for k in data.draw(st.permutations(list(pa)))}
        elif kind == "respelled":
            pb = {k: (float(v) if isinstance(v, int) else int(v) if float(v).is_integer() else v) for k, v in pa.items()}
        elif kind == "one-value" and pa:
            k = data.draw(st.sampled_from(list(pa)))
            pb[k] = pa[k] + data.draw(st.sampled_from([1, -1, 0.5, 1e-9]))
        elif kind == "extra":
            pb["added_coordinate"] = 0
        elif kind == "missing" and pa:
            pb.pop(data.draw(st.sampled_from(list(pa))))
        elif kind == "renamed" and pa:
            k = data.draw(st.sampled_from(list(pa)))
            pb = {(kk + "_" if kk == k else kk): v for kk, v in pa.items()}
        elif kind == "independent":
            pb = {n: data.draw(S.coordinate_values()) for n in data.draw(st.lists(S.legal_names(), max_size=3, unique=True))}
        check_points(stats, pa, pb, kind)
    return test


def parts(tier):
    n = 30000 if tier == "quick" else 600000
    return [hyp_part("expressions", make_pairs, int(n * 0.7)), hyp_part("points", make_points, int(n * 0.3))]


def replay(case):
    if case.get("sub") == "point" or ("a" in case and "model" not in case):
        check_points(Stats(), M.point_from_json(case["a"]), M.point_from_json(case["b"]), case.get("kind", "?"))
    else:
        check_expressions(Stats(), case_model(case), M.from_json(case["b"]), M.from_json(case["c"]), case.get("kind", "?"))


def self_test(tier, agg):
    c = agg.get("expressions", {}).get("counters", {})
    bad = []
    for k in MM.KINDS:
        tot = c.get(f"kind:{k}:equal", 0) + c.get(f"kind:{k}:unequal", 0)
        if tot < 50:
            bad.append(f"C12: sibling kind {k} generated fewer than 50 times")
    if c.get("kind:spelling:equal", 0) < 50:
        bad.append("C12: fewer than 50 equal-but-respelled pairs")
    return bad
