"""C06 - early, late and every other differentiation route give the same answers."""
from __future__ import annotations
from hypothesis import given, strategies as st
from harness import strategies as S
from harness import boundary as BD
from harness import deriv as DV
from harness import findings
from .common import *

ID = "C06"
RULE = ("Generated trees/DAGs (plus boundary-injected and masked-undefined cases) x variable (object or name, occurring "
        "or absent) x complete points inside and outside the domain x all 14 numeric routes (Partial.at late/early/"
        "late-after-as_expression, Derivative.at with Point and number, Differential.component.at, component_at, "
        "Differential.at.component, LocatedDifferential.component; early and late).  Differential oracle: every route "
        "gives the same outcome class (all numbers or all DomainError); numbers agree pairwise within the summed "
        "rounding bounds (8 x reference-AD bound for numeric routes, plus 8 x eps of evaluating the simplified partial "
        "for symbolic routes); Partial/Derivative early and late as_expression() are == with equal repr; "
        "Differential(e).component(v) == Partial(e,v); Differential(e).at(p) == LocatedDifferential(e,p) with equal "
        "hashes; one derivative object queried at 2-4 points in a row answers like a fresh object each time.  Non-trivial = (>= 2 routes returned numbers AND the simplified partial differs from the raw one) OR "
        "the point is outside the domain; distinct by SHA-1 of (canonical model, point, variable).")
ASSUMPTIONS = [
    "cases the reference classifies as range/undecided are skipped (an overflow may hit one route and not another)",
    "structural equality of as_expression() is required for the objects that carry both a compute_early flag and "
    "as_expression(): Partial and Derivative; components of early/late Differentials use reverse/forward symbolic "
    "differentiation and are compared by value (DESIGN.md 5.3)",
    "KF1 failures are attributed by suppressing exactly that rule instance in-process",
]


def simplified_models(m, var):
    """(forward simplified model, reverse simplified model) or None where not available."""
    out = {}
    a = lib.call(lambda: DV.run_symbolic("Partial.as_expression/late", m, var))
    out["fwd"] = to_model(a.value) if a.kind == lib.EXPR else None
    b = lib.call(lambda: DV.run_symbolic("Differential(early).component.as_expression", m, var))
    out["rev"] = to_model(b.value) if b.kind == lib.EXPR else None
    return out


def route_family(route):
    if route.endswith("/early") or route.endswith("after-as_expression"):
        return "rev" if route.startswith("Differential") else "fwd"
    return None


def outcomes(m, env, var, as_object, routes):
    return {rt: lib.call(lambda: DV.run_numeric(rt, m, env, var, as_object)) for rt in routes}


def class_mismatch(outs):
    kinds = {o.kind for o in outs.values()}
    if lib.OVF in kinds:
        return None
    if len(kinds) > 1:
        return kinds
    return None


def check(stats, m, env, var, as_object=False, sub="routes", info=None):
    m = safe(m)
    stats.case()
    vs = M.variables(m)
    r, ctx = DV.value_context(m, env)
    stats.count("ref:" + r.st)
    if r.st in (RE.RANGE, RE.UNDECIDED):
        return
    routes = DV.routes_for(m, var)
    case = make_case(sub, m, env, var=var, as_object=as_object)
    where = f"d/d{var} of {M.text(m)[:300]} at {M.point_text(env)}"
    outs = outcomes(m, env, var, as_object, routes)
    if any(o.kind == lib.OVF for o in outs.values()):
        stats.count("overflow-skip")
        return
    for rt in routes:
        stats.count("route:" + rt)
    kinds = class_mismatch(outs)
    if kinds is not None and r.st == RE.DEFINED:
        # symbolic routes may sit within rounding distance (folded constants) of their own boundary
        odd = [rt for rt, o in outs.items() if o.kind == lib.DOM]
        if odd and all(DV.family_of(rt) is not None for rt in odd) and \
                all(o.kind == lib.NUM for rt, o in outs.items() if rt not in odd) and \
                all(DV.rounding_excuse(m, var, env, rt) for rt in odd):
            stats.count("folded-constant-rounding-skip")
            return
    if kinds is not None:
        def again():
            return class_mismatch(outcomes(m, env, var, as_object, routes)) is not None
        if findings.attributable_to_kf1(ID, again):
            stats.known("KF1")
            return
        summary = "; ".join(f"{rt}: {o!r}" for rt, o in outs.items())
        bad = sorted(rt for rt, o in outs.items() if o.kind != outs["Partial.at/late"].kind)
        raise violation(ID, sub, f"class:{bad[0] if bad else '?'}:{outs[bad[0]].kind if bad else '?'}", case,
                        f"{where}: routes disagree in outcome class: {summary}")
    kind = next(iter(outs.values())).kind
    if kind not in (lib.NUM, lib.DOM):
        raise violation(ID, sub, f"class-all:{kind}", case, f"{where}: every route gave {next(iter(outs.values()))!r}")
    rewritten = False
    if kind == lib.NUM:
        o = DV.oracle(m, env, var, ctx=ctx, r=r)
        stats.count("oracle:" + o.st)
        if o.st == "ok" and not ill_conditioned(o.ed, max(abs(o.D), o.a)):
            sms = simplified_models(m, var)
            tol = {}
            penv = {k: v for k, v in env.items()}
            for rt in routes:
                fam = route_family(rt)
                t = TOL * o.ed
                if fam is not None:
                    sm = sms.get(fam)
                    if sm is None:
                        t = None
                    else:
                        rs, _ = RE.evaluate(sm, penv, const_ulps=2.0)
                        t = None if rs.st != RE.DEFINED else t + TOL * rs.eps
                tol[rt] = t
            base_rt = "Partial.at/late"
            for rt in routes:
                if rt == base_rt or tol[rt] is None:
                    continue
                a, b = outs[base_rt].value, outs[rt].value
                bound = tol[base_rt] + tol[rt] + TINY
                err = abs(mpf(a) - mpf(b))
                if err <= bound:
                    stats.ratio(float(err / bound) * TOL if bound > 0 else 0.0, where + " " + rt)
                else:
                    def again():
                        o2 = outcomes(m, env, var, as_object, [base_rt, rt])
                        if o2[base_rt].kind != lib.NUM or o2[rt].kind != lib.NUM:
                            return True
                        return abs(mpf(o2[base_rt].value) - mpf(o2[rt].value)) > bound
                    if findings.attributable_to_kf1(ID, again):
                        stats.known("KF1")
                        continue
                    raise violation(ID, sub, f"value:{rt}", case,
                                    f"{where}: {base_rt} gives {a!r} but {rt} gives {b!r} (allowed difference {bound:.3g})")
            raw = None
            try:
                raw = to_model(build(m)._synthetic_partial(var))
            except Exception:  # noqa: private entry point only used for the non-triviality statistic
                raw = None
            rewritten = raw is not None and sms.get("fwd") is not None and M.canon(raw) != M.canon(sms["fwd"])
    # structural clauses
    structural(stats, m, env, var, as_object, case, where, defined=(kind == lib.NUM))
    if (kind == lib.NUM and rewritten and len(routes) >= 2) or kind == lib.DOM:
        stats.count("nontrivial:" + ("outside-domain" if kind == lib.DOM else "rewritten"))
        stats.nontrivial_case(M.digest(M.canon(m), sorted(env.items()), var),
                              describe(m, env, variable=var, outcome=kind, routes=len(routes)))


def structural(stats, m, env, var, as_object, case, where, defined):
    v = DV.var_arg(var, as_object)
    vs = M.variables(m)
    pairs = [("Partial.as_expression/late", "Partial.as_expression/early")]
    if "Derivative.as_expression/late" in DV.symbolic_routes_for(m, var):
        pairs.append(("Derivative.as_expression/late", "Derivative.as_expression/early"))
    for late, early in pairs:
        a = lib.call(lambda: DV.run_symbolic(late, m, var, as_object))
        b = lib.call(lambda: DV.run_symbolic(early, m, var, as_object))
        if a.kind == lib.OVF or b.kind == lib.OVF:
            continue
        if a.kind != lib.EXPR or b.kind != lib.EXPR:
            raise violation(ID, "as_expression", f"asexpr-kind:{late}", case, f"{where}: {late} gave {a!r}, {early} gave {b!r}")
        if not (a.value == b.value) or repr(a.value) != repr(b.value):
            raise violation(ID, "as_expression", f"asexpr-differs:{late}", case,
                            f"{where}: {late} gave {a.value!r} but {early} gave {b.value!r}")
        stats.count("as_expression-equal")
    e = build(m)
    for early in (False, True):
        comp = lib.call(lambda: lib.Differential(e, compute_early=early).component(v))
        if comp.kind == lib.OVF:
            continue
        p = lib.Partial(build(m), v)
        if comp.kind != lib.OBJ or not (comp.value == p) or not (p == comp.value) or hash(comp.value) != hash(p):
            raise violation(ID, "component-eq", f"component-eq:{early}", case,
                            f"{where}: Differential(e, compute_early={early}).component({var!r}) is {comp!r}, not equal to Partial(e, {var!r})")
        stats.count("component==Partial")
    if defined:
        P = lib.Point(**env)
        for early in (False, True):
            a = lib.call(lambda: lib.Differential(build(m), compute_early=early).at(P))
            b = lib.call(lambda: lib.LocatedDifferential(build(m), lib.Point(**env)))
            if a.kind == lib.OVF or b.kind == lib.OVF:
                continue
            if a.kind != lib.OBJ or b.kind != lib.OBJ or not (a.value == b.value) or hash(a.value) != hash(b.value):
                def again():
                    a2 = lib.call(lambda: lib.Differential(build(m), compute_early=early).at(lib.Point(**env)))
                    return a2.kind != lib.OBJ
                if a.kind == lib.DOM and findings.attributable_to_kf1(ID, again):
                    stats.known("KF1")
                    continue
                raise violation(ID, "located-eq", f"located-eq:{early}", case,
                                f"{where}: Differential(e, compute_early={early}).at(p) is {a!r}, LocatedDifferential(e, p) is {b!r}")
            stats.count("Differential.at==LocatedDifferential")


def check_reuse(stats, m, var, envs, sub="reuse"):
    """One derivative OBJECT queried at several points in a row ("evaluate your derivative at many x values" is the
    documented use of compute_early=True): every answer must be what a freshly built object gives at that point."""
    m = safe(m)
    stats.case()
    vs = M.variables(m)
    kinds = [("Partial", False), ("Partial", True), ("Differential", False), ("Differential", True)]
    if len(vs) <= 1 and (not vs or vs[0] == var):
        kinds += [("Derivative", False), ("Derivative", True)]

    def make(kind, early):
        e = build(m)
        if kind == "Partial":
            return lib.Partial(e, var, compute_early=early)
        if kind == "Derivative":
            return lib.Derivative(e, compute_early=early)
        return lib.Differential(e, compute_early=early)

    def ask(obj, kind, env, how):
        P = lib.Point(**env)
        if kind != "Differential":
            return obj.at(P)
        return obj.at(P).component(var) if how == 0 else obj.component_at(var, P) if how == 1 else obj.component(var).at(P)
    for kind, early in kinds:
        made = lib.call(lambda: make(kind, early))
        if made.kind != lib.OBJ:
            continue
        trail = []
        for k, env in enumerate(envs):
            how = k % 3
            got = lib.call(lambda: ask(made.value, kind, env, how))
            fresh_obj = lib.call(lambda: make(kind, early))
            want = lib.call(lambda: ask(fresh_obj.value, kind, env, how)) if fresh_obj.kind == lib.OBJ else fresh_obj
            trail.append(f"{M.point_text(env)} -> {got!r}")
            if lib.OVF in (got.kind, want.kind):
                continue
            if got.key() != want.key() and not (got.kind == lib.EXC and want.kind == lib.EXC):
                case = make_case(sub, m, None, var=var, points=[M.point_to_json(x) for x in envs[:k + 1]])
                raise violation(ID, sub, f"reuse:{kind}:{'early' if early else 'late'}", case,
                                f"{kind}(e, compute_early={early}) for d/d{var} of {M.text(m)[:250]} queried in a row: {'; '.join(trail)} - "
                                f"but a freshly built object gives {want!r} at the last point")
            stats.count(f"reuse:{kind}:{'early' if early else 'late'}")
    stats.nontrivial_case(M.digest(M.canon(m), var, [sorted(x.items()) for x in envs]), {"expr": M.text(m)[:300], "variable": var, "points": len(envs)})


def make_reuse(stats):
    @given(st.data())
    def test(data):
        names = data.draw(S.name_lists(1, 3))
        m = data.draw(S.expressions(names, depth=3))
        envs = [data.draw(S.points(names)) for _ in range(data.draw(st.integers(2, 4)))]
        check_reuse(stats, m, data.draw(st.sampled_from(names)), envs)
    return test


def make_general(stats):
    @given(st.data())
    def test(data):
        names = data.draw(S.name_lists(1, 4))
        m = data.draw(S.expressions(names, depth=3))
        env = data.draw(S.points(names))
        var = data.draw(st.sampled_from(names + ["absent"]))
        check(stats, m, env, var, as_object=data.draw(st.booleans()))
    return test


def make_single(stats):
    @given(st.data())
    def test(data):
        m = data.draw(S.expressions(["x"], depth=3))
        env = data.draw(S.points(["x"], extra=False))
        check(stats, m, env, "x", as_object=data.draw(st.booleans()), sub="single")
    return test


def make_edge(stats):
    @given(st.data())
    def test(data):
        names = data.draw(S.name_lists(1, 3))
        if data.draw(st.booleans()):
            m, env, info = data.draw(BD.injected(names, depth=2))
        else:
            m, env, info = data.draw(BD.masked_cases(names, depth=1))
        pool = M.variables(m) or ["absent"]
        var = data.draw(st.sampled_from(pool + ["absent"]))
        for n in M.variables(m):
            env.setdefault(n, 1)
        check(stats, m, env, var, as_object=data.draw(st.booleans()), sub="edge", info=info)
    return test


def make_roots(stats):
    from . import c05
    @given(st.data())
    def test(data):
        names = data.draw(S.name_lists(1, 2))
        inner = data.draw(S.poly_trees(names, depth=2, tags=S.POLY_TAGS))
        n1, n2 = data.draw(st.sampled_from([2, 3, 4, 6, 5])), data.draw(st.sampled_from([2, 3, 4, 6, 5]))
        k = data.draw(st.integers(0, 3))
        m = [("NthRoot", ("NthPower", inner, n1), n2), ("NthPower", ("NthRoot", inner, n1), n2),
             ("Logarithm", ("NthPower", inner, n1), 2), ("Multiply", (("NthRoot", inner, n1), ("NthRoot", inner, n1)))][k]
        env = data.draw(S.exact_points(names))
        check(stats, m, env, data.draw(st.sampled_from(names)), sub="roots")
    return test


def parts(tier):
    n = 6000 if tier == "quick" else 100000
    return [hyp_part("general", make_general, int(n * 0.4)), hyp_part("single", make_single, int(n * 0.2)),
            hyp_part("edge", make_edge, int(n * 0.25)), hyp_part("roots", make_roots, int(n * 0.15)),
            hyp_part("reuse", make_reuse, int(n * 0.15))]


def replay(case):
    if case.get("sub") == "reuse":
        check_reuse(Stats(), case_model(case), case["var"], [M.point_from_json(p) for p in case["points"]])
        return
    check(Stats(), case_model(case), case_point(case), case["var"], case.get("as_object", False), sub=case.get("sub", "routes"))


def self_test(tier, agg):
    tot = {}
    for g in agg.values():
        for k, c in g["counters"].items():
            tot[k] = tot.get(k, 0) + c
    bad = []
    for name, _e, _s in DV.NUMERIC_ROUTES:
        if tot.get("route:" + name, 0) < 50:
            bad.append(f"C06: route {name} exercised fewer than 50 times")
    for k in ("nontrivial:outside-domain", "nontrivial:rewritten", "as_expression-equal", "Differential.at==LocatedDifferential"):
        if tot.get(k, 0) < 50:
            bad.append(f"C06: class {k} seen fewer than 50 times")
    return bad
