"""Known findings (read-only at run time) and the regression tier.

/verif/known_findings.txt:
    known: property=<id> id=<KFn> <what fails: call site / input>
    fixed: property=<id> <commit> <what failed>
A `known:` line enables the matcher of that finding *for that property only*; a `fixed:` line
suppresses nothing.  The file is never written at run time.
"""
from __future__ import annotations
import glob
import json
import os
import re

VERIF = os.path.dirname(os.path.dirname(os.path.abspath(__file__)))
_PATH = os.path.join(VERIF, "known_findings.txt")
_cache = None


def _load():
    global _cache
    if _cache is not None:
        return _cache
    listed = {}
    if os.path.exists(_PATH):
        with open(_PATH) as f:
            for line in f:
                line = line.strip()
                if not line.startswith("known:"):
                    continue
                mp = re.search(r"property=(C\d+)", line)
                mi = re.search(r"\bid=(\w+)", line)
                if mp and mi:
                    listed.setdefault(mp.group(1), {})[mi.group(1)] = line[len("known:"):].strip()
    _cache = listed
    return listed


def listed(prop_id, kf_id):
    return kf_id in _load().get(prop_id, {})


def announce(prop_id):
    """(lines to print, ids that are listed and whose witness still fails)."""
    from harness import findings
    lines = []
    active = []
    for kf_id, text in sorted(_load().get(prop_id, {}).items()):
        w = findings.WITNESS.get((prop_id, kf_id))
        if w is None:
            continue
        try:
            still = w()
        except Exception as ex:  # noqa
            still = f"witness raised {type(ex).__name__}: {ex}"
        if still:
            what = re.sub(r"property=C\d+\s*", "", text)
            lines.append(f"KNOWN-FINDING: property={prop_id} {what}")
            active.append(kf_id)
    return lines, active


def regress_cases(prop_id):
    out = []
    for path in sorted(glob.glob(os.path.join(VERIF, "regress", prop_id, "*.json"))):
        with open(path) as f:
            j = json.load(f)
        case = j["case"] if "case" in j and "sub_check" in j else j
        if "sub_check" in j and "sub" not in case:
            case = dict(case)
            case["sub"] = j["sub_check"]
        out.append(case)
    return out
