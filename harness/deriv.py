"""Derivative oracle (RefEval + RefAD + self-check) and the library's differentiation routes."""
from __future__ import annotations
from fractions import Fraction
from mpmath import mpf
import smoothmath
from smoothmath import Point, Partial, Derivative, Differential, LocatedDifferential
import smoothmath.expression as sx
from . import model as M
from . import refeval as RE
from . import refad as RA
from .build import build, HarnessError

LO, HI = 1e-60, 1e60


class Oracle:
    __slots__ = ("st", "r", "ctx", "D", "ed", "a", "exact", "why")

    def __init__(self, st, **kw):
        self.st = st
        for k in self.__slots__[1:]:
            setattr(self, k, kw.get(k))


def value_context(m, env):
    ctx = RE.RefEval(env, lo=LO, hi=HI)
    r = ctx.eval(m)
    return r, ctx


def oracle(m, env, var, ctx=None, r=None, reverse=False, selfcheck=False) -> Oracle:
    """True partial of m with respect to var at env, with error bound.  st is one of
    'ok', RE.UNDEF, RE.UNDECIDED, RE.RANGE, 'drange'."""
    if ctx is None:
        r, ctx = value_context(m, env)
    if r.st != RE.DEFINED:
        return Oracle(r.st, r=r, ctx=ctx, why=r.why)
    try:
        ad = RA.RefAD(ctx, var)
        d = ad.deriv(m)
        if reverse:
            grad = RA.reverse_sweep(ctx, m)
            g = grad.get(var, mpf(0))
            if abs(g - d.d) > 1e-35 * (abs(d.d) + d.a + 1):
                raise HarnessError(f"reference forward and reverse modes disagree: {d.d} vs {g} for {M.text(m)[:200]}")
    except RA.DRange:
        return Oracle("drange", r=r, ctx=ctx)
    except (ZeroDivisionError, OverflowError):
        return Oracle("drange", r=r, ctx=ctx)
    exact = None
    if var in env and RA.exact_budget_ok(m, env):
        exact = RA.frac_dual(m, env, var)[1]
    if selfcheck and var in env and ad.has_var(m):
        cd = RA.central_difference(m, env, var)
        if cd is not None:
            tol = 1e-12 * (abs(d.d) + d.a + 1)
            if abs(cd - d.d) > tol:
                raise HarnessError(
                    f"oracle self-check failed: reference AD {d.d} vs 50-digit central difference {cd} "
                    f"for d/d{var} of {M.text(m)[:300]} at {M.point_text(env)}")
    return Oracle("ok", r=r, ctx=ctx, D=d.d, ed=d.ed, a=d.a, exact=exact)


# ---------------------------------------------------------------------------------------------
# routes.  Every route builds its own fresh objects from the model: history independence is
# C09's subject, not C03-C07's.

def var_arg(name, as_object):
    return sx.Variable(name) if as_object else name


NUMERIC_ROUTES = [
    # (name, early?, needs <=1 variable?)
    ("Partial.at/late", False, False),
    ("Partial.at/early", True, False),
    ("Partial.at/late-after-as_expression", False, False),
    ("Derivative.at/late", False, True),
    ("Derivative.at/early", True, True),
    ("Derivative.at(number)/late", False, True),
    ("Derivative.at(number)/early", True, True),
    ("Differential.component.at/late", False, False),
    ("Differential.component.at/early", True, False),
    ("Differential.component_at/late", False, False),
    ("Differential.component_at/early", True, False),
    ("Differential.at.component/late", False, False),
    ("Differential.at.component/early", True, False),
    ("LocatedDifferential.component", False, False),
]


def run_numeric(route, m, env, var, as_object=False, share=True):
    """Returns a thunk's result for the named route (raises whatever the library raises)."""
    e = build(m, share=share)
    P = Point(**env)
    v = var_arg(var, as_object)
    if route == "Partial.at/late":
        return Partial(e, v).at(P)
    if route == "Partial.at/early":
        return Partial(e, v, compute_early=True).at(P)
    if route == "Partial.at/late-after-as_expression":
        q = Partial(e, v)
        q.as_expression()
        return q.at(P)
    if route == "Derivative.at/late":
        return Derivative(e).at(P)
    if route == "Derivative.at/early":
        return Derivative(e, compute_early=True).at(P)
    if route in ("Derivative.at(number)/late", "Derivative.at(number)/early"):
        vs = M.variables(m)
        number = env.get(vs[0], 1.5) if vs else 1.5
        return Derivative(e, compute_early=route.endswith("early")).at(number)
    if route == "Differential.component.at/late":
        return Differential(e).component(v).at(P)
    if route == "Differential.component.at/early":
        return Differential(e, compute_early=True).component(v).at(P)
    if route == "Differential.component_at/late":
        return Differential(e).component_at(v, P)
    if route == "Differential.component_at/early":
        return Differential(e, compute_early=True).component_at(v, P)
    if route == "Differential.at.component/late":
        return Differential(e).at(P).component(v)
    if route == "Differential.at.component/early":
        return Differential(e, compute_early=True).at(P).component(v)
    if route == "LocatedDifferential.component":
        return LocatedDifferential(e, P).component(v)
    raise HarnessError(f"unknown route {route}")


def routes_for(m, var):
    """Names of the numeric routes applicable to (m, var)."""
    vs = M.variables(m)
    out = []
    for name, _early, single in NUMERIC_ROUTES:
        if single:
            # Derivative differentiates with respect to *the* variable of the expression
            if len(vs) > 1:
                continue
            if vs and vs[0] != var:
                continue
            if not vs and var != "whatever":
                continue
        out.append(name)
    return out


SYMBOLIC_ROUTES = [
    "Partial.as_expression/late",
    "Partial.as_expression/early",
    "Derivative.as_expression/late",
    "Derivative.as_expression/early",
    "Differential(early).component.as_expression",
    "Differential(late).component.as_expression",
]


def run_symbolic(route, m, var, as_object=False, share=True):
    e = build(m, share=share)
    v = var_arg(var, as_object)
    if route == "Partial.as_expression/late":
        return Partial(e, v).as_expression()
    if route == "Partial.as_expression/early":
        return Partial(e, v, compute_early=True).as_expression()
    if route == "Derivative.as_expression/late":
        return Derivative(e).as_expression()
    if route == "Derivative.as_expression/early":
        return Derivative(e, compute_early=True).as_expression()
    if route == "Differential(early).component.as_expression":
        return Differential(e, compute_early=True).component(v).as_expression()
    if route == "Differential(late).component.as_expression":
        return Differential(e).component(v).as_expression()
    raise HarnessError(f"unknown route {route}")


def symbolic_routes_for(m, var):
    vs = M.variables(m)
    out = []
    for name in SYMBOLIC_ROUTES:
        if name.startswith("Derivative"):
            if len(vs) > 1 or (vs and vs[0] != var) or (not vs and var != "whatever"):
                continue
        out.append(name)
    return out


def simplified_partial_model(m, var, family):
    """Model of the simplified symbolic partial the early routes evaluate: family 'fwd' (Partial /
    Derivative) or 'rev' (Differential(compute_early=True)).  None if it cannot be produced."""
    from . import lib
    route = "Partial.as_expression/late" if family == "fwd" else "Differential(early).component.as_expression"
    out = lib.call(lambda: run_symbolic(route, m, var))
    if out.kind != lib.EXPR:
        return None
    from .build import to_model
    return to_model(out.value)


def family_of(route):
    if route.endswith("/early") or route.endswith("after-as_expression"):
        return "rev" if route.startswith("Differential") else "fwd"
    return None


def rounding_excuse(m, var, env, route):
    """True when a symbolic (early) route's DomainError at a point where the original is defined
    is explained by rounding of folded constants: with 2 ulp of uncertainty on its float constants
    the simplified partial's domain test at this point is undecidable (within 4 eps of a boundary)."""
    fam = family_of(route)
    if fam is None:
        return False
    # Differential(compute_early=True).at(p) evaluates the simplified partials of *all* variables
    names = M.variables(m) if route == "Differential.at.component/early" else [var]
    for name in names:
        sm = simplified_partial_model(m, name, fam)
        if sm is None:
            continue
        r, _ = RE.evaluate(sm, dict(env), const_ulps=2.0)
        if r.st in (RE.UNDECIDED, RE.RANGE):
            return True
    return False
