"""Keeps generated expressions inside the region the properties speak about *and* away from inputs on which CPython would
build astronomically large exact integers (int ** huge int) - see DESIGN.md 5.3.

  * product of NthPower exponents along any path <= 4096 (model.cap_powers);
  * a Power whose exponent is a variable-free sub-tree worth more than 64 in magnitude gets the exponent Constant(2):
    the simplifier folds such an exponent to an integral constant n and rewrites Power(u, n) to NthPower(u, n); with an
    int-valued base (Constant(7), or an int coordinate) nth_power then computes 7 ** n exactly.
"""
from __future__ import annotations
from . import model as M
from . import refeval as RE

EXPONENT_LIMIT = 64


def sanitize(m):
    m = M.cap_powers(m)
    memo = {}

    def go(x):
        k = id(x)
        if k in memo:
            return memo[k]
        t = x[0]
        if t in M.LEAVES:
            r = x
        else:
            cs = M.children(x)
            new = [go(c) for c in cs]
            r = x if all(a is c for a, c in zip(new, cs)) else M.with_children(x, new)
            if t == "Power" and r[2][0] != "Constant" or (t == "Power" and isinstance(r[2][1], (int, float)) and abs(r[2][1]) > EXPONENT_LIMIT):
                ex = r[2]
                if not M.variables(ex):
                    v, _ = RE.evaluate(ex, {}, lo=0.0, hi=float("inf"))
                    # UNDECIDED: e.g. 1/(cbrt(-5) + 1.709975946676697) - the reference cannot tell 0 from 2e-16, the library's
                    # float arithmetic gets 4.5e15 and folds it into an integer exponent
                    if v.st in (RE.RANGE, RE.UNDECIDED) or (v.st == RE.DEFINED and abs(v.v) > EXPONENT_LIMIT):
                        r = ("Power", r[1], ("Constant", 2))
        memo[k] = r
        return r
    return go(m)
