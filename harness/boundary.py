"""Generators that reach domain boundaries and masked undefined sub-terms *by construction*.

boundary injection: pick a position, make the sub-tree there the constrained argument of a
  constrained node, shifted so that at the generated point it evaluates exactly to a chosen
  boundary-relative value b (on / just inside / just outside the boundary).
masking contexts: an undefined sub-term is placed where a shortcut could skip it.
"""
from __future__ import annotations
import math
from hypothesis import strategies as st
from . import model as M
from . import strategies as S
from . import refeval as RE

B_VALUES = [0, 0, 0, 2.0 ** -1, -(2.0 ** -1), 2.0 ** -10, -(2.0 ** -10), 2.0 ** -30, -(2.0 ** -30),
            2.0 ** -52, -(2.0 ** -52), -1, 1, 2.0 ** -200, -(2.0 ** -200), 0.0, -0.0]

KINDS = ["Reciprocal", "Divide", "Logarithm", "NthRootEven", "NthRootOdd", "PowerBase"]


def shifted(s, env, b):
    """A model that, at env, evaluates to exactly b when s is on the exact track there (and to
    b up to rounding otherwise).  Returns None when s is not decidedly defined at env."""
    r, _ = RE.evaluate(s, env, lo=0.0, hi=1e300)
    if r.st != RE.DEFINED:
        return None
    c = float(r.q) if r.q is not None else float(r.v)
    if not math.isfinite(c):
        return None
    if c == 0:
        return ("Add", (s, ("Constant", b)))
    return ("Add", (("Minus", s, ("Constant", c)), ("Constant", b)))


@st.composite
def constrained(draw, names, arg, kind=None):
    """A constrained node whose constrained argument is `arg`."""
    kind = kind or draw(st.sampled_from(KINDS))
    if kind == "Reciprocal":
        return ("Reciprocal", arg)
    if kind == "Divide":
        return ("Divide", draw(S.trees(names, depth=1)), arg)
    if kind == "Logarithm":
        return ("Logarithm", arg, draw(S.log_bases()))
    if kind == "NthRootEven":
        return ("NthRoot", arg, draw(st.sampled_from([2, 4, 6, 8, 12, 2.0])))
    if kind == "NthRootOdd":
        return ("NthRoot", arg, draw(st.sampled_from([3, 5, 7, 9, 3.0])))
    return ("Power", arg, draw(S.trees(names, depth=1)))


@st.composite
def injected(draw, names, depth=3):
    """(model, env, info): a general tree in which one generated position holds a constrained
    node sitting exactly on / next to its boundary at env."""
    m = draw(S.trees(names, depth=depth))
    env = draw(S.points(names))
    ps = M.paths(m, limit=200)
    p = draw(st.sampled_from(ps))
    s = M.get(m, p)
    b = draw(st.sampled_from(B_VALUES))
    kind = draw(st.sampled_from(KINDS))
    arg = shifted(s, env, b)
    if arg is None:
        s = draw(S.poly_trees(names, depth=2))
        arg = shifted(s, env, b)
        if arg is None:
            arg = ("Constant", b)
    node = draw(constrained(names, arg, kind))
    return M.replace(m, p, node), env, {"kind": kind, "b": b, "depth": len(p)}


# ---------------------------------------------------------------------------------------------
# undefined terms and masking contexts

@st.composite
def bad_terms(draw, names, env):
    """A sub-term that is certainly undefined at env (exact decision), with or without variables."""
    how = draw(st.integers(0, 2))
    kind = draw(st.sampled_from(KINDS))
    if kind in ("Reciprocal", "Divide", "NthRootOdd"):
        b = 0
    elif kind == "NthRootEven":
        b = draw(st.sampled_from([0, -1, -(2.0 ** -10), -4]))
    else:
        b = draw(st.sampled_from([0, -1, -(2.0 ** -10), -2.5]))
    if how == 0 or not names:
        arg = ("Constant", b)
    elif how == 1:
        s = draw(S.poly_trees(names, depth=2))
        arg = shifted(s, env, b) or ("Constant", b)
    else:
        # variable-free tree evaluating exactly to b
        s = draw(S.poly_trees([], depth=2))
        arg = shifted(s, {}, b) or ("Constant", b)
    return draw(constrained(names, arg, kind)), kind


MASKS = ["mul-zero-const", "mul-zero-var", "zero-numerator", "power-base-one", "power-base-one-tree",
         "exp-base-one", "self-cancel", "nthpower-one", "cos-mul-zero", "nested-nary", "minus-self",
         "multiply-by-zero-tree", "add-of-zero-times", "plain"]


@st.composite
def masked(draw, names, env, bad):
    """Puts `bad` where a shortcut could skip it.  env may be extended with a zero-valued variable."""
    mask = draw(st.sampled_from(MASKS))
    env = dict(env)
    if mask == "mul-zero-const":
        k = draw(st.integers(0, 2))
        others = [draw(S.trees(names, depth=1)) for _ in range(draw(st.integers(0, 2)))]
        zero = ("Constant", draw(st.sampled_from([0, 0.0, -0.0])))
        kids = others + [bad]
        kids.insert(min(k, len(kids)), zero)
        m = ("Multiply", tuple(kids))
    elif mask == "mul-zero-var":
        env["zero"] = draw(st.sampled_from([0, 0.0]))
        kids = [("Variable", "zero"), bad]
        if draw(st.booleans()):
            kids.reverse()
        m = ("Multiply", tuple(kids))
    elif mask == "zero-numerator":
        f = draw(st.sampled_from(["id", "Add", "Exponential", "Sine"]))
        den = bad if f == "id" else ("Add", (bad, ("Constant", 3))) if f == "Add" else \
            ("Exponential", bad, math.e) if f == "Exponential" else ("Add", (("Sine", bad), ("Constant", 2)))
        m = ("Divide", ("Constant", 0), den)
    elif mask == "power-base-one":
        m = ("Power", ("Constant", draw(st.sampled_from([1, 1.0]))), bad)
    elif mask == "power-base-one-tree":
        one = draw(st.sampled_from([
            ("Add", (("Constant", 0.5), ("Constant", 0.5))),
            ("Cosine", ("Constant", 0)),
            ("Exponential", ("Constant", 0), math.e),
            ("Multiply", ()),
            ("NthPower", ("Constant", -1), 2),
            ("Divide", ("Constant", 3), ("Constant", 3)),
        ]))
        m = ("Power", one, bad)
    elif mask == "exp-base-one":
        m = ("Exponential", bad, draw(st.sampled_from([1, 1.0])))
    elif mask == "self-cancel":
        m = ("Add", (bad, ("Negation", bad)))
    elif mask == "minus-self":
        m = ("Minus", bad, bad)
    elif mask == "nthpower-one":
        m = (draw(st.sampled_from(["NthPower", "NthRoot"])), bad, 1)
    elif mask == "cos-mul-zero":
        m = (draw(st.sampled_from(["Cosine", "Sine", "Exponential"])), ("Multiply", (("Constant", 0), bad)))
        if m[0] == "Exponential":
            m = ("Exponential", m[1], 2)
    elif mask == "nested-nary":
        inner = ("Add", (draw(S.leaves(names)), bad))
        m = ("Multiply", (draw(S.leaves(names)), ("Add", (("Multiply", (inner, ("Constant", 0))), draw(S.leaves(names))))))
    elif mask == "multiply-by-zero-tree":
        z = draw(st.sampled_from([("Minus", ("Constant", 2), ("Constant", 2)), ("Sine", ("Constant", 0)),
                                  ("Add", ()), ("Logarithm", ("Constant", 1), 2)]))
        m = ("Multiply", (z, bad))
    elif mask == "add-of-zero-times":
        m = ("Add", (draw(S.leaves(names)), ("Multiply", (("Constant", 0), bad)), draw(S.leaves(names))))
    else:
        m = bad
    return m, env, mask


@st.composite
def masked_cases(draw, names, depth=2):
    """(model, env, info): undefined term in a masking context at a generated position of an outer tree."""
    env = draw(S.points(names))
    bad, kind = draw(bad_terms(names, env))
    mm, env, mask = draw(masked(names, env, bad))
    outer = draw(S.trees(names, depth=depth))
    ps = M.paths(outer, limit=100)
    p = draw(st.sampled_from(ps))
    if draw(st.integers(0, 3)) == 0:
        p = ()
    return M.replace(outer, p, mm), env, {"kind": kind, "mask": mask, "depth": len(p)}
