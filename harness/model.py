"""Model AST: my own immutable representation of smoothmath expressions.

A model is a nested tuple whose first entry is the smoothmath constructor name:

    ("Constant", value)                       value: int | float
    ("Variable", name)
    ("Negation" | "Reciprocal" | "Cosine" | "Sine", child)
    ("NthPower" | "NthRoot", child, n)        n: int >= 1
    ("Exponential" | "Logarithm", child, base)  base: int | float ; E_BASE marks "default base"
    ("Minus" | "Divide" | "Power", left, right)
    ("Add" | "Multiply", (child, ...))

Sharing (DAGs) is represented by Python object identity of the child tuples: if the
same tuple object occurs twice, `build.build(m, share=True)` maps both occurrences to one
smoothmath object.  `to_json`/`from_json` preserve that identity structure.
"""
from __future__ import annotations
import math
import hashlib
from fractions import Fraction

UNARY = ("Negation", "Reciprocal", "Cosine", "Sine")
PARAM_N = ("NthPower", "NthRoot")
PARAM_BASE = ("Exponential", "Logarithm")
BINARY = ("Minus", "Divide", "Power")
NARY = ("Add", "Multiply")
LEAVES = ("Constant", "Variable")
ALL_TAGS = LEAVES + UNARY + PARAM_N + PARAM_BASE + BINARY + NARY


def children(m):
    t = m[0]
    if t in LEAVES:
        return ()
    if t in UNARY or t in PARAM_N or t in PARAM_BASE:
        return (m[1],)
    if t in BINARY:
        return (m[1], m[2])
    if t in NARY:
        return tuple(m[1])
    raise ValueError(f"bad model tag {t!r}")


def with_children(m, new):
    """Same node, other children (new is a sequence of the same arity for fixed-arity nodes)."""
    t = m[0]
    if t in LEAVES:
        return m
    if t in UNARY:
        return (t, new[0])
    if t in PARAM_N or t in PARAM_BASE:
        return (t, new[0], m[2])
    if t in BINARY:
        return (t, new[0], new[1])
    return (t, tuple(new))


def size(m):
    """Number of nodes of the expanded tree."""
    memo = {}

    def go(x):
        k = id(x)
        if k in memo:
            return memo[k]
        r = 1 + sum(go(c) for c in children(x))
        memo[k] = r
        return r
    return go(m)


def depth(m):
    memo = {}

    def go(x):
        k = id(x)
        if k in memo:
            return memo[k]
        cs = children(x)
        r = 1 + (max(go(c) for c in cs) if cs else 0)
        memo[k] = r
        return r
    return go(m)


def dag_size(m):
    """Number of distinct node objects (by identity)."""
    seen = set()

    def go(x):
        if id(x) in seen:
            return
        seen.add(id(x))
        for c in children(x):
            go(c)
    go(m)
    return len(seen)


def shared_nodes(m):
    """Number of distinct non-leaf node objects that are reachable through > 1 parent edge."""
    count = {}
    keep = {}

    def go(x):
        k = id(x)
        count[k] = count.get(k, 0) + 1
        if count[k] > 1:
            return
        keep[k] = x
        for c in children(x):
            go(c)
    go(m)
    return sum(1 for k, c in count.items() if c > 1 and keep[k][0] not in LEAVES)


def variables(m):
    out = []
    seen = set()

    def go(x):
        if id(x) in seen:
            return
        seen.add(id(x))
        if x[0] == "Variable":
            if x[1] not in out:
                out.append(x[1])
        for c in children(x):
            go(c)
    go(m)
    return out


def tags(m):
    out = {}
    seen = set()

    def go(x):
        if id(x) in seen:
            return
        seen.add(id(x))
        out[x[0]] = out.get(x[0], 0) + 1
        for c in children(x):
            go(c)
    go(m)
    return out


def subterms(m):
    """All distinct node objects, pre-order."""
    out = []
    seen = set()

    def go(x):
        if id(x) in seen:
            return
        seen.add(id(x))
        out.append(x)
        for c in children(x):
            go(c)
    go(m)
    return out


def clone(m):
    """Structurally equal model made of NEW tuple objects (no sharing with m, no internal sharing)."""
    t = m[0]
    if t in LEAVES:
        return (t, m[1])
    return with_children((t,) + tuple(m[1:]), [clone(c) for c in children(m)])


POWER_BUDGET = 4096


def cap_powers(m, budget=POWER_BUDGET):
    """Keeps the product of NthPower exponents along every root-to-leaf path <= budget by turning excess exponents
    into 1.  Without it the simplifier's own rule NthPower(NthPower(u, m), n) => NthPower(u, m*n) can manufacture an
    astronomically large integer exponent, and constant folding of an *int* leaf then asks CPython for an exact
    integer with 10^20 digits (minutes of CPU, gigabytes) - an intermediate far outside the double range, which
    every property excludes."""
    memo = {}

    def go(x, b):
        k = (id(x), b)
        if k in memo:
            return memo[k]
        t = x[0]
        if t in LEAVES:
            r = x
        elif t == "NthPower":
            n = int(x[2])
            if n > b:
                r = (t, go(x[1], b), 1)
            else:
                c = go(x[1], max(1, b // max(n, 1)))
                r = x if c is x[1] else (t, c, x[2])
        else:
            cs = children(x)
            new = [go(c, b) for c in cs]
            r = x if all(a is c for a, c in zip(new, cs)) else with_children(x, new)
        memo[k] = r
        return r
    return go(m, budget)


def _canon_num(v):
    """Numeric parameters/values normalised so 2 and 2.0 coincide (as == does)."""
    if isinstance(v, bool):
        return ("b", v)
    if isinstance(v, int):
        return ("q", v, 1)
    if isinstance(v, float):
        if v != v:
            return ("nan",)
        if v in (math.inf, -math.inf):
            return ("inf", v > 0)
        f = Fraction(v)
        return ("q", f.numerator, f.denominator)
    if isinstance(v, Fraction):
        return ("q", v.numerator, v.denominator)
    return ("o", repr(v))


def canon(m):
    """Canonical, hashable, sharing-free form; equal iff the expressions are structurally equal
    in the sense of property C12."""
    memo = {}

    def go(x):
        k = id(x)
        if k in memo:
            return memo[k]
        t = x[0]
        if t == "Constant":
            r = (t, _canon_num(x[1]))
        elif t == "Variable":
            r = (t, x[1])
        elif t in UNARY:
            r = (t, go(x[1]))
        elif t in PARAM_N or t in PARAM_BASE:
            r = (t, go(x[1]), _canon_num(x[2]))
        elif t in BINARY:
            r = (t, go(x[1]), go(x[2]))
        else:
            r = (t, tuple(go(c) for c in x[1]))
        memo[k] = r
        return r
    return go(m)


def _num_text(v):
    if isinstance(v, float):
        if v == math.e:
            return "math.e"
        if v != v:
            return "math.nan"
        if v == math.inf:
            return "math.inf"
        if v == -math.inf:
            return "-math.inf"
    return repr(v)


def text(m):
    """The constructor call, as Python source (sharing not shown)."""
    t = m[0]
    if t == "Constant":
        return f"Constant({_num_text(m[1])})"
    if t == "Variable":
        return f"Variable({m[1]!r})"
    if t in UNARY:
        return f"{t}({text(m[1])})"
    if t in PARAM_N:
        return f"{t}({text(m[1])}, n={_num_text(m[2])})"
    if t in PARAM_BASE:
        return f"{t}({text(m[1])}, base={_num_text(m[2])})"
    if t in BINARY:
        return f"{t}({text(m[1])}, {text(m[2])})"
    return f"{t}({', '.join(text(c) for c in m[1])})"


def digest(*parts):
    h = hashlib.sha1()
    for p in parts:
        h.update(repr(p).encode("utf-8", "backslashreplace"))
        h.update(b"\0")
    return h.digest()[:10]


# ---------------------------------------------------------------------------------------------
# JSON (replay files).  Numbers are stored as {"i": int} or {"f": float.hex()} so the replay is
# bit exact; sharing is stored as a let-list.

def num_to_json(v):
    if isinstance(v, bool):
        return {"b": v}
    if isinstance(v, int):
        return {"i": str(v)}
    if isinstance(v, float):
        return {"f": v.hex()}
    if v is None:
        return None
    if isinstance(v, str):
        return {"s": v}
    return {"r": repr(v)}


def num_from_json(j):
    if j is None:
        return None
    if "i" in j:
        return int(j["i"])
    if "f" in j:
        return float.fromhex(j["f"])
    if "b" in j:
        return bool(j["b"])
    if "s" in j:
        return j["s"]
    raise ValueError(f"cannot rebuild {j!r}")


def to_json(m):
    defs = []
    index = {}

    def go(x):
        k = id(x)
        if k in index:
            return index[k]
        t = x[0]
        if t == "Constant":
            d = [t, num_to_json(x[1])]
        elif t == "Variable":
            d = [t, x[1]]
        elif t in UNARY:
            d = [t, go(x[1])]
        elif t in PARAM_N or t in PARAM_BASE:
            d = [t, go(x[1]), num_to_json(x[2])]
        elif t in BINARY:
            d = [t, go(x[1]), go(x[2])]
        else:
            d = [t, [go(c) for c in x[1]]]
        defs.append(d)
        index[k] = len(defs) - 1
        return index[k]
    root = go(m)
    return {"defs": defs, "root": root, "text": text(m)}


def from_json(j):
    built = []
    for d in j["defs"]:
        t = d[0]
        if t == "Constant":
            built.append((t, num_from_json(d[1])))
        elif t == "Variable":
            built.append((t, d[1]))
        elif t in UNARY:
            built.append((t, built[d[1]]))
        elif t in PARAM_N or t in PARAM_BASE:
            built.append((t, built[d[1]], num_from_json(d[2])))
        elif t in BINARY:
            built.append((t, built[d[1]], built[d[2]]))
        else:
            built.append((t, tuple(built[i] for i in d[1])))
    return built[j["root"]]


def point_to_json(p):
    """p: dict name -> number, or a bare number, or None."""
    if isinstance(p, dict):
        return {"coords": [[k, num_to_json(v)] for k, v in p.items()]}
    return {"bare": num_to_json(p)}


def point_from_json(j):
    if "coords" in j:
        return {k: num_from_json(v) for k, v in j["coords"]}
    return num_from_json(j["bare"])


def point_text(p):
    if isinstance(p, dict):
        return "Point(" + ", ".join(f"{k}={_num_text(v)}" for k, v in p.items()) + ")"
    return _num_text(p)


# ---------------------------------------------------------------------------------------------
# positions

def paths(m, limit=400):
    """All child-index paths (tuples) of the expanded tree, pre-order, at most `limit`."""
    out = []

    def go(x, p):
        if len(out) >= limit:
            return
        out.append(p)
        for i, c in enumerate(children(x)):
            go(c, p + (i,))
    go(m, ())
    return out


def get(m, path):
    for i in path:
        m = children(m)[i]
    return m


def replace(m, path, new):
    if not path:
        return new
    cs = list(children(m))
    cs[path[0]] = replace(cs[path[0]], path[1:], new)
    return with_children(m, cs)
