"""Runner: shards a property over worker processes, aggregates statistics, writes evidence and
replay files, prints VIOLATION / KNOWN-FINDING lines and picks the exit code.

Exit codes: 0 = property held on everything explored, 1 = violation (not a listed finding),
2 = harness error / inconclusive (never printed as VIOLATION).
"""
from __future__ import annotations
import argparse
import importlib
import json
import multiprocessing as mp
import os
import sys
import time
import traceback
import logging

VERIF = os.path.dirname(os.path.dirname(os.path.abspath(__file__)))
OUT = os.environ.get("VERIF_OUT") or VERIF      # where evidence/ and replays/ go (mutation runs redirect it)
SHARDS = int(os.environ.get("VERIF_SHARDS", "16"))
ALL_IDS = ["C%02d" % i for i in range(1, 19)]


class Violation(Exception):
    """Raised by a property for an unlisted violation.  Carries a JSON-able case."""

    def __init__(self, prop, sub, sig, case, message):
        super().__init__(f"{prop}/{sub}: {message}")
        self.prop = prop
        self.sub = sub
        self.sig = sig
        self.case = case
        self.message = message

    def to_json(self):
        return {"property": self.prop, "sub_check": self.sub, "signature": self.sig,
                "case": self.case, "message": self.message}


class Stats:
    """Per-shard counters.  Everything here is measured, nothing is derived."""

    def __init__(self):
        self.evaluations = 0
        self.counters = {}
        self.nontrivial = set()
        self.samples = []
        self._sample_seen = 0
        self.worst_ratio = 0.0
        self.worst_case = None
        self.excluded_known = {}

    def count(self, key, k=1):
        self.counters[key] = self.counters.get(key, 0) + k

    def case(self):
        self.evaluations += 1

    def nontrivial_case(self, digest, sample=None):
        new = digest not in self.nontrivial
        self.nontrivial.add(digest)
        if new and sample is not None:
            self._sample_seen += 1
            n = self._sample_seen
            if len(self.samples) < 4 or (n & (n - 1)) == 0:
                if len(self.samples) < 12:
                    self.samples.append(sample)

    def ratio(self, r, case_text=None):
        if r > self.worst_ratio:
            self.worst_ratio = r
            self.worst_case = case_text

    def known(self, kf_id):
        self.excluded_known[kf_id] = self.excluded_known.get(kf_id, 0) + 1

    def export(self):
        return {"evaluations": self.evaluations, "counters": self.counters,
                "nontrivial": self.nontrivial, "samples": self.samples,
                "worst_ratio": self.worst_ratio, "worst_case": self.worst_case,
                "excluded_known": self.excluded_known}


def load_prop(prop_id):
    return importlib.import_module(f"harness.props.{prop_id.lower()}")


def _quiet_logging():
    # the library logs its step-budget warning on the root logger; checks that care install
    # their own handler, nobody wants it on stderr
    root = logging.getLogger()
    root.handlers[:] = [logging.NullHandler()]
    root.setLevel(logging.WARNING)


def shard_main(args):
    prop_id, tier, seed, shard, nshards = args
    import hypothesis
    from hypothesis import settings, HealthCheck, Phase
    from harness.build import HarnessError
    _quiet_logging()
    sys.setrecursionlimit(20000)
    try:
        # `kill -USR1 <shard pid>` prints the shard's Python stack to stderr (debugging aid for slow cases)
        import faulthandler
        import signal
        faulthandler.register(signal.SIGUSR1, all_threads=False)
    except Exception:  # noqa
        pass
    try:
        import resource
        lim = int(os.environ.get("VERIF_SHARD_MEM_GB", "4")) * (1 << 30)
        resource.setrlimit(resource.RLIMIT_AS, (lim, lim))
    except Exception:  # noqa
        pass
    os.environ["VERIF_SHARD"] = str(shard)
    os.environ["VERIF_NSHARDS"] = str(nshards)
    os.environ["VERIF_RUN_SEED"] = str(seed)
    out = {"shard": shard, "violations": [], "error": None, "parts": []}
    t0 = time.time()
    try:
        mod = load_prop(prop_id)
        parts = mod.parts(tier)
        only = [x for x in os.environ.get("VERIF_PARTS", "").split(",") if x]      # debugging aid: run named parts only
        if only:
            parts = [p for p in parts if p["name"] in only]
        for part in parts:
            name = part["name"]
            stats = Stats()
            pout = {"name": name, "stats": None, "wall": 0.0}
            t1 = time.time()
            try:
                if "run" in part:
                    # non-Hypothesis part (exhaustive enumeration etc.)
                    part["run"](stats, seed, shard, nshards)
                elif "machine" in part:
                    from hypothesis.stateful import run_state_machine_as_test
                    per = max(1, -(-part["examples"] // nshards))
                    cls = part["machine"](stats)
                    # once this shard has a (shrunk) violation, later parts only generate: their failures are still
                    # reported, but minutes of shrinking on a tree already known to be broken are not spent
                    st_ = settings(max_examples=per, database=None, deadline=None, derandomize=False,
                                   report_multiple_bugs=False, suppress_health_check=list(HealthCheck),
                                   phases=[Phase.generate] if out["violations"] else [Phase.generate, Phase.shrink], print_blob=False,
                                   stateful_step_count=part.get("steps", 30))
                    run_state_machine_as_test(hypothesis.seed(seed * 64 + shard)(cls), settings=st_)
                else:
                    n = part["examples"]
                    per = max(1, -(-n // nshards))
                    test = part["make"](stats)
                    phases = [Phase.generate] if out["violations"] else [Phase.generate, Phase.shrink]
                    test = settings(max_examples=per, database=None, deadline=None, derandomize=False,
                                    report_multiple_bugs=False, suppress_health_check=list(HealthCheck),
                                    phases=phases, print_blob=False,
                                    stateful_step_count=part.get("steps", 50))(test)
                    test = hypothesis.seed(seed * 64 + shard)(test)
                    test()
            except Violation as v:
                out["violations"].append(v.to_json())
            except HarnessError as ex:
                out["error"] = f"HarnessError in {name}: {ex}\n{traceback.format_exc()}"
            except BaseException as ex:  # noqa: a crash of the harness itself is exit 2, not a violation
                v = _find_violation(ex)
                if v is not None:
                    out["violations"].append(v.to_json())
                else:
                    out["error"] = f"{type(ex).__name__} in {name}: {ex}\n{traceback.format_exc()}"
            pout["stats"] = stats.export()
            pout["wall"] = time.time() - t1
            out["parts"].append(pout)
            if out["error"]:
                break
    except BaseException as ex:  # noqa
        out["error"] = f"{type(ex).__name__}: {ex}\n{traceback.format_exc()}"
    out["wall"] = time.time() - t0
    return out


def _find_violation(ex):
    seen = 0
    while ex is not None and seen < 10:
        if isinstance(ex, Violation):
            return ex
        if hasattr(ex, "exceptions"):
            for sub in ex.exceptions:
                v = _find_violation(sub)
                if v is not None:
                    return v
        ex = ex.__cause__ or ex.__context__
        seen += 1
    return None


def _shard_entry(job, conn):
    try:
        res = shard_main(job)
    except BaseException as ex:  # noqa
        res = {"shard": job[3], "violations": [], "error": f"{type(ex).__name__}: {ex}", "parts": [], "wall": 0.0}
    try:
        conn.send(res)
    except BaseException as ex:  # noqa
        try:
            conn.send({"shard": job[3], "violations": res.get("violations", []), "parts": [],
                       "error": f"cannot send shard result: {type(ex).__name__}: {ex}", "wall": 0.0})
        except BaseException:  # noqa
            pass
    finally:
        conn.close()


def run_shards(jobs, tier):
    """One process per shard; a shard that dies or exceeds the wall-clock cap is an inconclusive
    harness error (exit 2), never a hang and never a violation."""
    import multiprocessing.connection as mpc
    ctx = mp.get_context("fork")
    cap = float(os.environ.get("VERIF_WALL_CAP_S", "2400" if tier == "quick" else "14400"))
    procs = []
    for job in jobs:
        parent, child = ctx.Pipe(duplex=False)
        p = ctx.Process(target=_shard_entry, args=(job, child), daemon=True)
        p.start()
        child.close()
        procs.append((job, p, parent))
    results = {}
    deadline = time.time() + cap
    pending = {parent: (job, p) for job, p, parent in procs}
    while pending:
        left = deadline - time.time()
        if left <= 0:
            break
        ready = mpc.wait(list(pending), timeout=min(left, 5.0))
        for conn in ready:
            job, p = pending.pop(conn)
            try:
                results[job[3]] = conn.recv()
            except (EOFError, OSError):
                p.join(5)
                results[job[3]] = {"shard": job[3], "violations": [], "parts": [], "wall": 0.0,
                                   "error": f"shard {job[3]} died without a result (exit code {p.exitcode})"}
    for conn, (job, p) in pending.items():
        p.kill()
        results[job[3]] = {"shard": job[3], "violations": [], "parts": [], "wall": 0.0,
                           "error": f"shard {job[3]} exceeded the wall-clock cap of {cap:.0f}s (inconclusive)"}
    for _job, p, _c in procs:
        p.join(10)
        if p.is_alive():
            p.kill()
    return [results[j[3]] for j in jobs]


def hyp_part(name, make, examples, **kw):
    d = {"name": name, "make": make, "examples": examples}
    d.update(kw)
    return d


def machine_part(name, machine, examples, steps=30):
    return {"name": name, "machine": machine, "examples": examples, "steps": steps}


def fuzz_part(name, prop_id, maker, runs):
    """Thorough-tier stage: atheris/libFuzzer drives the Hypothesis property `maker` of module prop_id."""
    def run(stats, seed, shard, nshards):
        import subprocess
        work = os.path.join(VERIF, ".work", prop_id)
        os.makedirs(work, exist_ok=True)
        out = os.path.join(work, f"fuzz-{name}-{shard}.json")
        corpus = out + ".corpus"
        import shutil
        shutil.rmtree(corpus, ignore_errors=True)
        if os.path.exists(out):
            os.remove(out)
        per = max(1, runs // nshards)
        cmd = [sys.executable, "-B", "-m", "harness.fuzz", prop_id, maker, "--runs", str(per), "--seed", str(seed * 64 + shard + 1), "--out", out]
        try:
            subprocess.run(cmd, cwd=VERIF, stdout=subprocess.DEVNULL, stderr=subprocess.DEVNULL, timeout=float(os.environ.get("VERIF_FUZZ_CAP_S", "7200")))
        except subprocess.TimeoutExpired:
            stats.count("fuzz-timeout")
        if not os.path.exists(out):
            stats.count("fuzz-no-output")
            return
        with open(out) as f:
            j = json.load(f)
        shutil.rmtree(corpus, ignore_errors=True)
        if "skipped" in j:
            stats.count("fuzz-skipped:" + j["skipped"][:60])
            return
        st = j["stats"]
        stats.evaluations += st["evaluations"]
        stats.count("fuzz-executions", j["executions"])
        for k, c in st["counters"].items():
            stats.count(k, c)
        for d in st["nontrivial"]:
            stats.nontrivial.add(bytes.fromhex(d))
        for smp in st["samples"]:
            if len(stats.samples) < 12:
                stats.samples.append(smp)
        for k, c in st["excluded_known"].items():
            stats.excluded_known[k] = stats.excluded_known.get(k, 0) + c
        if j.get("error"):
            from harness.build import HarnessError
            raise HarnessError(j["error"])
        if j["violations"]:
            v = j["violations"][0]
            raise Violation(v["property"], v["sub_check"], v["signature"], v["case"], v["message"])
    return {"name": name, "run": run}


def run_part(name, run):
    return {"name": name, "run": run}


# ---------------------------------------------------------------------------------------------

def write_replay(prop_id, v):
    os.makedirs(os.path.join(OUT, "replays"), exist_ok=True)
    from harness.model import digest
    tag = digest(v["sub_check"], v["signature"]).hex()[:10]
    path = os.path.join(OUT, "replays", f"{prop_id}-{tag}.json")
    with open(path, "w") as f:
        json.dump(v, f, indent=1, sort_keys=True)
    return path


def main(argv=None):
    ap = argparse.ArgumentParser()
    ap.add_argument("prop")
    ap.add_argument("--tier", default=os.environ.get("VERIF_TIER") or "quick", choices=["quick", "thorough"])
    ap.add_argument("--replay", default=None)
    ap.add_argument("--seed", type=int, default=None)
    ap.add_argument("--shards", type=int, default=SHARDS)
    a = ap.parse_args(argv)
    prop_id = a.prop.upper()
    if prop_id not in ALL_IDS:
        print(f"HARNESS-ERROR unknown property {prop_id}")
        return 2
    seed = a.seed if a.seed is not None else int(os.environ.get("VERIF_SEED", "1") or "1")
    seed = abs(seed) % (2 ** 40)
    _quiet_logging()
    sys.setrecursionlimit(20000)
    from harness import known
    mod = load_prop(prop_id)

    if a.replay:
        return replay_main(prop_id, mod, a.replay)

    t0 = time.time()
    # 1. known findings: replay each witness, print KNOWN-FINDING while it still fails
    kf_lines, kf_active = known.announce(prop_id)
    for line in kf_lines:
        print(line, flush=True)

    # 2. regression tier: every shrunk failure found during development, without Hypothesis
    violations = []
    regress_count = 0
    try:
        for case in known.regress_cases(prop_id):
            regress_count += 1
            v = run_replay_case(mod, case)
            if v is not None:
                violations.append(v)
    except Exception as ex:  # noqa
        print(f"HARNESS-ERROR regress tier: {type(ex).__name__}: {ex}")
        traceback.print_exc()
        return 2

    # 3. generated search, sharded
    nshards = max(1, min(a.shards, getattr(mod, "MAX_SHARDS", a.shards)))
    jobs = [(prop_id, a.tier, seed, s, nshards) for s in range(nshards)]
    if nshards == 1:
        results = [shard_main(jobs[0])]
    else:
        results = run_shards(jobs, a.tier)

    errors = [r["error"] for r in results if r["error"]]
    agg = {}
    for r in results:
        for p in r["parts"]:
            g = agg.setdefault(p["name"], {"evaluations": 0, "counters": {}, "nontrivial": set(), "samples": [],
                                           "worst_ratio": 0.0, "worst_case": None, "excluded_known": {},
                                           "wall": 0.0})
            s = p["stats"]
            g["evaluations"] += s["evaluations"]
            for k, c in s["counters"].items():
                g["counters"][k] = g["counters"].get(k, 0) + c
            g["nontrivial"] |= s["nontrivial"]
            for smp in s["samples"]:
                if len(g["samples"]) < 10:
                    g["samples"].append(smp)
            if s["worst_ratio"] > g["worst_ratio"]:
                g["worst_ratio"] = s["worst_ratio"]
                g["worst_case"] = s["worst_case"]
            for k, c in s["excluded_known"].items():
                g["excluded_known"][k] = g["excluded_known"].get(k, 0) + c
            g["wall"] = max(g["wall"], p["wall"])
        for v in r["violations"]:
            violations.append(v)

    # distinct violations by signature
    distinct = {}
    for v in violations:
        distinct.setdefault((v["sub_check"], v["signature"]), v)
    paths = []
    for v in distinct.values():
        paths.append((v, write_replay(prop_id, v)))

    wall = time.time() - t0
    evidence_ok = True
    try:
        write_evidence(prop_id, mod, a.tier, seed, agg, len(distinct), wall, regress_count, kf_active, errors)
    except Exception as ex:  # noqa
        evidence_ok = False
        errors.append(f"evidence: {type(ex).__name__}: {ex}\n{traceback.format_exc()}")

    # self-test of generators: a starved interesting class is a harness problem, not a success
    starved = []
    if not errors and not distinct and hasattr(mod, "self_test") and not os.environ.get("VERIF_PARTS"):
        try:
            starved = mod.self_test(a.tier, {k: {"evaluations": g["evaluations"], "counters": g["counters"],
                                                 "nontrivial": len(g["nontrivial"])} for k, g in agg.items()}) or []
        except Exception as ex:  # noqa
            errors.append(f"self_test: {type(ex).__name__}: {ex}")

    for v, path in paths:
        print(f"VIOLATION property={prop_id} replay={path}")
        print(f"  sub-check: {v['sub_check']}  signature: {v['signature']}")
        print(f"  {v['message']}")
    total = sum(g["evaluations"] for g in agg.values())
    nt = sum(len(g["nontrivial"]) for g in agg.values())
    print(f"{prop_id} tier={a.tier} seed={seed} cases={total} distinct_nontrivial={nt} "
          f"violations={len(distinct)} wall={wall:.1f}s")
    if distinct:
        return 1
    if errors:
        for e in errors[:3]:
            print("HARNESS-ERROR " + e)
        return 2
    if starved:
        for s in starved:
            print("HARNESS-ERROR starved generator: " + s)
        return 2
    return 0


def write_evidence(prop_id, mod, tier, seed, agg, nviol, wall, regress_count, kf_active, errors):
    os.makedirs(os.path.join(OUT, "evidence"), exist_ok=True)
    parts = {}
    samples = []
    total = 0
    nt = 0
    excluded = {}
    for name, g in agg.items():
        parts[name] = {
            "evaluations": g["evaluations"],
            "distinct_nontrivial": len(g["nontrivial"]),
            "classes": dict(sorted(g["counters"].items())),
            "worst_error_over_bound": g["worst_ratio"],
            "worst_case": g["worst_case"],
            "excluded_known": g["excluded_known"],
            "wall_s": round(g["wall"], 2),
        }
        total += g["evaluations"]
        nt += len(g["nontrivial"])
        for s in g["samples"][:6]:
            samples.append({"part": name, "case": s})
        for k, c in g["excluded_known"].items():
            excluded[k] = excluded.get(k, 0) + c
    cov = {
        "evaluations": total,
        "distinct_nontrivial": nt,
        "rule": mod.RULE,
        "samples": samples[:24],
        "parts": parts,
        "excluded_known_findings": excluded,
        "regress_cases_replayed": regress_count,
        "known_findings_active": kf_active,
        "shards": SHARDS,
    }
    if getattr(mod, "EXHAUSTIVE_PARTS", None):
        cov["exhaustive_parts"] = list(mod.EXHAUSTIVE_PARTS)
    if errors:
        cov["harness_errors"] = [e[:500] for e in errors]
    ev = {
        "property_id": prop_id,
        "tier": tier,
        "seed": seed,
        "level": "exploration",
        "coverage": cov,
        "assumptions": list(getattr(mod, "ASSUMPTIONS", [])),
        "wall_s": round(wall, 2),
        "violations": nviol,
    }
    path = os.path.join(OUT, "evidence", f"{prop_id}.json")
    tmp = path + ".tmp"
    with open(tmp, "w") as f:
        json.dump(ev, f, indent=1, sort_keys=True, default=str)
    os.replace(tmp, path)


def run_replay_case(mod, case):
    """Re-executes one stored case without Hypothesis.  Returns a violation dict or None."""
    try:
        mod.replay(case)
    except Violation as v:
        return v.to_json()
    return None


def replay_main(prop_id, mod, path):
    from harness.build import HarnessError
    with open(path) as f:
        j = json.load(f)
    case = j["case"] if "case" in j and "sub_check" in j else j
    if "sub_check" in j and "sub" not in case:
        case = dict(case)
        case["sub"] = j["sub_check"]
    try:
        v = run_replay_case(mod, case)
    except HarnessError as ex:
        print(f"HARNESS-ERROR replay: {ex}")
        return 2
    if v is None:
        print(f"{prop_id} replay {path}: property holds on this case")
        return 0
    print(f"VIOLATION property={prop_id} replay={path}")
    print(f"  {v['message']}")
    return 1


if __name__ == "__main__":
    sys.exit(main())
