"""Reference forward-mode differentiation over the model AST (rules written from calculus).

For one variable and one RefEval context (one point at which the root is DEFINED) it returns per
node

  d    true partial derivative (mpf),
  ed   first-order running bound on |double result - d| covering forward mode, reverse mode
       (same path products, other association) and evaluation of an unsimplified symbolic
       derivative,
  a    "absolute derivative" sum over paths of |products| (conditioning scale).

`exact_partial` gives the exact Fraction derivative on the polynomial fragment together with a
proof obligation (bit budget) under which every double intermediate of either mode is exact.
"""
from __future__ import annotations
import math
from fractions import Fraction
import mpmath
from mpmath import mpf
from . import model as M
from .refeval import U, RefEval, DEFINED, MP_E, exact_of, to_mpf, _is_e


class DRange(Exception):
    """A derivative intermediate leaves the range in which doubles behave like reals."""


class D:
    __slots__ = ("d", "ed", "a")

    def __init__(self, d, ed, a):
        self.d = d
        self.ed = ed
        self.a = a


ZERO = D(mpf(0), 0.0, 0.0)


def _f(x):
    return float(abs(x))


class RefAD:
    def __init__(self, ctx: RefEval, var: str, lo=1e-100, hi=1e100):
        self.ctx = ctx
        self.var = var
        self.memo = {}
        self.lo = lo
        self.hi = hi
        self._hasvar = {}

    def _chk(self, *xs):
        for x in xs:
            a = abs(x)
            if a != 0 and (a > self.hi or a < self.lo):
                raise DRange()

    def has_var(self, m):
        k = id(m)
        if k in self._hasvar:
            return self._hasvar[k]
        if m[0] == "Variable":
            r = m[1] == self.var
        else:
            r = any(self.has_var(c) for c in M.children(m))
        self._hasvar[k] = r
        return r

    def deriv(self, m) -> D:
        k = id(m)
        if k in self.memo:
            return self.memo[k]
        if not self.has_var(m):
            r = ZERO
        else:
            r = self._deriv(m)
            self._chk(r.d)
            if r.ed != r.ed or r.ed == math.inf or r.a == math.inf:
                raise DRange()
        self.memo[k] = r
        return r

    def _val(self, m):
        r = self.ctx.eval(m)
        if r.st != DEFINED:
            raise AssertionError("RefAD needs a defined point")
        return r

    def _combine(self, terms):
        """terms: list of (f, delta_f, D_child).  Returns D of sum f_i * d_i."""
        d = mpf(0)
        ed = 0.0
        a = 0.0
        mag = 0.0
        for f, df, c in terms:
            self._chk(f)
            d += f * c.d
            af = _f(f)
            ed += (af + df) * c.ed + _f(c.d) * df
            a += af * c.a
            mag += af * _f(c.d)
        ed += (len(terms) + 1) * U * mag
        return D(d, ed, a)

    def _deriv(self, m) -> D:
        t = m[0]
        if t == "Variable":
            return D(mpf(1), 0.0, 1.0)
        if t == "Negation":
            c = self.deriv(m[1])
            return D(-c.d, c.ed, c.a)
        if t == "Add":
            cs = [self.deriv(c) for c in m[1]]
            d = sum((c.d for c in cs), mpf(0))
            n = len(cs)
            ed = sum(c.ed for c in cs) + n * U * sum(_f(c.d) for c in cs)
            return D(d, ed, sum(c.a for c in cs))
        if t == "Minus":
            a, b = self.deriv(m[1]), self.deriv(m[2])
            return D(a.d - b.d, a.ed + b.ed + U * (_f(a.d) + _f(b.d)), a.a + b.a)
        terms = [(f, df, self.deriv(c)) for (c, f, df) in local_partials(self.ctx, m) if self.has_var(c)]
        return self._combine(terms)


def _val(ctx, m):
    r = ctx.eval(m)
    if r.st != DEFINED:
        raise AssertionError("RefAD needs a defined point")
    return r


def local_partials(ctx, m):
    """[(child, f, delta_f)]: the local partial of node m with respect to each child and a bound
    on the error of computing it in doubles from the children's double values."""
    t = m[0]
    if t in ("Constant", "Variable"):
        return []
    if t == "Negation":
        return [(m[1], mpf(-1), 0.0)]
    if t == "Add":
        return [(c, mpf(1), 0.0) for c in m[1]]
    if t == "Minus":
        return [(m[1], mpf(1), 0.0), (m[2], mpf(-1), 0.0)]
    if t == "Multiply":
        kids = list(m[1])
        vals = [_val(ctx, c) for c in kids]
        n = len(kids)
        out = []
        for i, c in enumerate(kids):
            f = mpf(1)
            for j in range(n):
                if j != i:
                    f *= vals[j].v
            df = 0.0
            for j in range(n):
                if j == i or not vals[j].eps:
                    continue
                o = mpf(1)
                for k2 in range(n):
                    if k2 != i and k2 != j:
                        o *= abs(vals[k2].v) + vals[k2].eps
                df += float(o) * vals[j].eps
            df += (n + 1) * U * _f(f)
            out.append((c, f, df))
        return out
    if t == "Divide":
        a, b = _val(ctx, m[1]), _val(ctx, m[2])
        bb = _f(b.v) - b.eps
        fa = 1 / b.v
        fb = -a.v / (b.v * b.v)
        dfa = b.eps / (bb * bb) + 2 * U * _f(fa)
        dfb = a.eps / (bb * bb) + 2 * (_f(a.v) + a.eps) * b.eps / (bb ** 3) + 4 * U * _f(fb)
        return [(m[1], fa, dfa), (m[2], fb, dfb)]
    if t == "Reciprocal":
        a = _val(ctx, m[1])
        aa = _f(a.v) - a.eps
        f = -1 / (a.v * a.v)
        df = 2 * a.eps / (aa ** 3) + 3 * U * _f(f)
        return [(m[1], f, df)]
    if t == "NthPower":
        n = int(m[2])
        if n == 1:
            return [(m[1], mpf(1), 0.0)]
        a = _val(ctx, m[1])
        f = n * a.v ** (n - 1)
        df = (n + 2) * U * _f(f)
        if a.eps:
            df += n * (n - 1) * float((abs(a.v) + a.eps) ** (n - 2)) * a.eps
        return [(m[1], f, df)]
    if t == "NthRoot":
        n = int(m[2])
        if n == 1:
            return [(m[1], mpf(1), 0.0)]
        r = _val(ctx, m)
        a = _val(ctx, m[1])
        f = r.v / (n * a.v)
        rr = _f(r.v) - r.eps
        df = _f(f) * (n - 1) * r.eps / rr + (n + 3) * U * _f(f)
        # the library divides by n * r^(n-1): that intermediate must stay in range too
        p = abs(r.v) ** (n - 1)
        if p != 0 and (p > 1e150 or p < 1e-150):
            raise DRange()
        return [(m[1], f, df)]
    if t == "Exponential":
        base = m[2]
        if not _is_e(base) and exact_of(base) == 1:
            return [(m[1], mpf(0), 0.0)]
        r = _val(ctx, m)
        ln_b = mpf(1) if _is_e(base) else mpmath.log(to_mpf(exact_of(base)))
        f = ln_b * r.v
        df = _f(ln_b) * r.eps + 4 * U * _f(f)
        return [(m[1], f, df)]
    if t == "Logarithm":
        base = m[2]
        a = _val(ctx, m[1])
        ln_b = mpf(1) if _is_e(base) else mpmath.log(to_mpf(exact_of(base)))
        f = 1 / (a.v * ln_b)
        aa = _f(a.v) - a.eps
        df = a.eps / (aa * aa * _f(ln_b)) + 5 * U * _f(f)
        return [(m[1], f, df)]
    if t == "Cosine":
        a = _val(ctx, m[1])
        f = -mpmath.sin(a.v)
        df = (_f(mpmath.cos(a.v)) + a.eps) * a.eps + 3 * U * _f(f)
        return [(m[1], f, df)]
    if t == "Sine":
        a = _val(ctx, m[1])
        f = mpmath.cos(a.v)
        df = (_f(mpmath.sin(a.v)) + a.eps) * a.eps + 3 * U * _f(f)
        return [(m[1], f, df)]
    if t == "Power":
        a, b = _val(ctx, m[1]), _val(ctx, m[2])
        r = _val(ctx, m)
        ln_a = mpmath.log(a.v)
        aa = _f(a.v) - a.eps
        fa = b.v * r.v / a.v
        faa = _f(b.v * (b.v - 1) * r.v) / (aa * aa)
        fab = _f(r.v / a.v * (1 + b.v * ln_a))
        dfa = faa * a.eps + fab * b.eps + (5 + _f(ln_a) * (_f(b.v) + 1)) * U * _f(fa) + _f(b.v) / aa * r.eps
        fb = ln_a * r.v
        fbb = _f(ln_a * ln_a * r.v)
        dfb = fab * a.eps + fbb * b.eps + 5 * U * _f(fb) + _f(ln_a) * r.eps + a.eps / aa * _f(r.v)
        return [(m[1], fa, dfa), (m[2], fb, dfb)]
    raise ValueError(f"bad model tag {t!r}")


def reverse_sweep(ctx, m, lo=1e-150, hi=1e150):
    """Reverse-mode gradient in mpmath: dict var -> mpf.  Raises DRange when a multiplier
    (d root / d node) or a contribution leaves [lo, hi]: reverse mode materialises those."""
    order = []
    seen = set()

    def topo(x):
        if id(x) in seen:
            return
        seen.add(id(x))
        for c in M.children(x):
            topo(c)
        order.append(x)
    topo(m)
    mult = {id(x): mpf(0) for x in order}
    mult[id(m)] = mpf(1)
    grad = {}
    for x in reversed(order):
        mk = mult[id(x)]
        if x[0] == "Variable":
            grad[x[1]] = grad.get(x[1], mpf(0)) + mk
            continue
        if mk == 0:
            continue
        for (c, f, _df) in local_partials(ctx, x):
            contrib = mk * f
            a = abs(contrib)
            if a != 0 and (a > hi or a < lo):
                raise DRange()
            mult[id(c)] += contrib
    return grad


def partial(m, env, var, ctx=None, **kw):
    """(D, ctx) for d m / d var at env; the caller must have checked that m is DEFINED there."""
    if ctx is None:
        ctx = RefEval(env)
        ctx.eval(m)
    ad = RefAD(ctx, var, **kw)
    return ad.deriv(m)


def central_difference(m, env, var):
    """High-precision central difference quotient: the derivative by definition, independent of
    any differentiation rule.  Returns mpf or None when p +/- h is not decidedly inside the domain."""
    p = Fraction(env[var])
    h = Fraction(1, 10 ** 100) * max(abs(p), Fraction(1, 10 ** 100))
    with mpmath.workdps(260):
        vals = []
        for s in (1, -1):
            e2 = dict(env)
            e2[var] = p + s * h
            r = RefEval(e2, lo=0.0, hi=math.inf).eval(m)
            if r.st != DEFINED:
                return None
            vals.append(r.v)
        q = (vals[0] - vals[1]) / (2 * to_mpf(h))
    return +q


# ---------------------------------------------------------------------------------------------
# Exact derivative on the polynomial fragment, with a bit budget that makes "exact" a theorem.

POLY_TAGS = ("Constant", "Variable", "Add", "Multiply", "Minus", "Negation", "NthPower")


def is_polynomial_fragment(m):
    return all(x[0] in POLY_TAGS for x in M.subterms(m))


def frac_dual(m, env, var):
    """Exact (value, d/dvar) over Fractions for the rational-function fragment.
    Raises ZeroDivisionError at poles."""
    memo = {}

    def go(x):
        k = id(x)
        if k in memo:
            return memo[k]
        t = x[0]
        if t == "Constant":
            r = (Fraction(x[1]), Fraction(0))
        elif t == "Variable":
            r = (Fraction(env[x[1]]), Fraction(1 if x[1] == var else 0))
        elif t == "Add":
            cs = [go(c) for c in x[1]]
            r = (sum((c[0] for c in cs), Fraction(0)), sum((c[1] for c in cs), Fraction(0)))
        elif t == "Multiply":
            cs = [go(c) for c in x[1]]
            v = Fraction(1)
            for c in cs:
                v *= c[0]
            d = Fraction(0)
            for i, c in enumerate(cs):
                o = c[1]
                if o == 0:
                    continue
                for j, c2 in enumerate(cs):
                    if j != i:
                        o *= c2[0]
                d += o
            r = (v, d)
        elif t == "Minus":
            a, b = go(x[1]), go(x[2])
            r = (a[0] - b[0], a[1] - b[1])
        elif t == "Negation":
            a = go(x[1])
            r = (-a[0], -a[1])
        elif t == "Divide":
            a, b = go(x[1]), go(x[2])
            r = (a[0] / b[0], (a[1] * b[0] - a[0] * b[1]) / (b[0] * b[0]))
        elif t == "Reciprocal":
            a = go(x[1])
            r = (1 / a[0], -a[1] / (a[0] * a[0]))
        elif t == "NthPower":
            n = int(x[2])
            a = go(x[1])
            r = (a[0] ** n, n * a[0] ** (n - 1) * a[1])
        else:
            raise ValueError(t)
        memo[k] = r
        return r
    return go(m)


def exact_budget_ok(m, env):
    """True when, for integer/dyadic leaves of the polynomial fragment, every double intermediate
    of forward mode, reverse mode and plain evaluation is exactly representable: all of them are
    (sums of) products of leaf values and small integers, bounded in magnitude by the 'absolute'
    evaluation B, with denominators dividing 2^(kmax * degree)."""
    if not is_polynomial_fragment(m):
        return False
    def leaf_k(fr):
        d = fr.denominator
        if d & (d - 1):
            return None
        return d.bit_length() - 1
    for x in M.subterms(m):
        if x[0] == "Constant":
            if leaf_k(Fraction(x[1])) is None:
                return False
        elif x[0] == "Variable":
            if x[1] not in env or leaf_k(Fraction(env[x[1]])) is None:
                return False
    order = []
    seen = set()

    def topo(x):
        if id(x) in seen:
            return
        seen.add(id(x))
        for c in M.children(x):
            topo(c)
        order.append(x)
    topo(m)
    W, DEG, A = {}, {}, {}
    LIMIT = 2 ** 60
    bound = 1
    for x in order:      # children first
        t = x[0]
        k = id(x)
        cs = M.children(x)
        if t == "Constant":
            W[k], DEG[k], A[k] = abs(Fraction(x[1])), leaf_k(Fraction(x[1])), 0
        elif t == "Variable":
            W[k], DEG[k], A[k] = abs(Fraction(env[x[1]])), leaf_k(Fraction(env[x[1]])), 1
        elif t in ("Add", "Minus"):
            W[k] = sum(W[id(c)] for c in cs)
            DEG[k] = max([DEG[id(c)] for c in cs], default=0)
            A[k] = sum(A[id(c)] for c in cs)
        elif t == "Negation":
            W[k], DEG[k], A[k] = W[id(cs[0])], DEG[id(cs[0])], A[id(cs[0])]
        elif t == "Multiply":
            w = Fraction(1)
            for c in cs:
                w *= max(W[id(c)], 1)
            W[k] = w
            DEG[k] = sum(DEG[id(c)] for c in cs)
            A[k] = sum(w * A[id(c)] for c in cs)
        elif t == "NthPower":
            n = int(x[2])
            if n > 64:
                return False
            w = max(W[id(cs[0])], 1)
            W[k] = w ** n
            DEG[k] = n * DEG[id(cs[0])]
            A[k] = n * w ** n * A[id(cs[0])]
        bound = max(bound, W[k], A[k])
        if bound > LIMIT:
            return False
    # reverse multipliers (absolute), parents first
    Mabs = {id(x): Fraction(0) for x in order}
    Mabs[id(m)] = Fraction(1)
    for x in reversed(order):
        t = x[0]
        k = id(x)
        cs = M.children(x)
        mk = Mabs[k]
        if t in ("Add", "Minus", "Negation"):
            for c in cs:
                Mabs[id(c)] += mk
        elif t == "Multiply":
            for c in cs:
                Mabs[id(c)] += mk * W[k]
        elif t == "NthPower":
            Mabs[id(cs[0])] += mk * int(x[2]) * W[k]
        bound = max(bound, mk, mk * max(W[k], 1))
        if bound > LIMIT:
            return False
    # DEG[.] is an upper bound K on log2(denominator) of every monomial; every intermediate X of
    # either mode satisfies: X * 2^K is an integer of magnitude <= bound * 2^K.
    kk = DEG[id(m)]
    if kk > 60:
        return False
    return bound * (2 ** kk) < 2 ** 52
