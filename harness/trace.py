"""Driving the simplifier one step at a time (the way _fully_reduce does) and observing it."""
from __future__ import annotations
import contextlib
import smoothmath.expression as sx
from . import model as M
from .build import to_model, HarnessError

STEP_LIMIT = 20000


class Trace:
    __slots__ = ("exprs", "models", "reduced", "final", "final_model", "steps", "error", "fired")

    def __init__(self):
        self.exprs = []      # e_0 .. e_k (smoothmath objects, kept alive)
        self.models = []     # their models (identity preserving: unchanged sub-objects map to the same tuple)
        self.reduced = False  # reached the fully-reduced flag within the limit
        self.final = None    # _normalize_fully_reduced() of the last form
        self.final_model = None
        self.steps = 0
        self.error = None    # exception raised by the library while stepping
        self.fired = []      # per step: list of rule names that returned a rewrite (rule_spy active)


def drive(e, limit=STEP_LIMIT, memo=None, normal_form=True):
    """Repeats e._take_reduction_step() until _is_fully_reduced (private entry points also used by the
    repository's tests).  Never raises for library exceptions: they are stored in .error."""
    tr = Trace()
    memo = {} if memo is None else memo
    cur = e
    try:
        tr.exprs.append(cur)
        tr.models.append(to_model(cur, memo))
        for _ in range(limit):
            if cur._is_fully_reduced:
                tr.reduced = True
                break
            del _SPY_LOG[:]
            nxt = cur._take_reduction_step()
            tr.fired.append(list(_SPY_LOG))
            tr.steps += 1
            tr.exprs.append(nxt)
            tr.models.append(to_model(nxt, memo))
            cur = nxt
        else:
            tr.reduced = bool(cur._is_fully_reduced)
        if tr.reduced and normal_form:
            tr.final = cur._normalize_fully_reduced()
            tr.final_model = to_model(tr.final, memo)
    except HarnessError:
        raise
    except AttributeError as ex:
        raise HarnessError(f"simplifier entry points not found: {ex}") from ex
    except RecursionError:
        raise
    except Exception as ex:  # noqa: the property modules decide what an exception means
        tr.error = ex
    return tr


def diff(a, b):
    """(path, sub_a, sub_b): the topmost position where models a and b differ, descending while
    the node is the same constructor with the same parameters and exactly one child changed."""
    path = ()
    while True:
        if a is b:
            return path, a, b
        if a[0] != b[0] or a[0] in M.LEAVES:
            return path, a, b
        ca, cb = M.children(a), M.children(b)
        if len(ca) != len(cb):
            return path, a, b
        if a[0] in M.PARAM_N or a[0] in M.PARAM_BASE:
            if a[2] != b[2]:
                return path, a, b
        changed = [i for i in range(len(ca)) if ca[i] is not cb[i]]
        if len(changed) != 1:
            # identity may differ for structurally equal rebuilt children: fall back to canon
            changed = [i for i in range(len(ca)) if ca[i] is not cb[i] and M.canon(ca[i]) != M.canon(cb[i])]
            if len(changed) != 1:
                return path, a, b
        i = changed[0]
        path = path + (i,)
        a, b = ca[i], cb[i]


def is_kf1_redex(x):
    return (x[0] == "NthRoot" and x[1][0] == "NthPower" and int(x[2]) % 2 == 0 and int(x[1][2]) % 2 == 0)


def signature(a, b):
    """Short description of a rewrite for coverage statistics."""
    def head(x):
        t = x[0]
        if t in M.LEAVES:
            return t
        kids = M.children(x)
        inner = ",".join(sorted({k[0] for k in kids}))[:60]
        return f"{t}({inner})"
    return f"{head(a)} => {head(b)}"


# ---------------------------------------------------------------------------------------------
# rule spy: harness-side wrapper around every method named _reduce_* of the expression classes,
# recording which rule produced a rewrite.  Purely observational.

_SPY_LOG = []
_SPY_NAMES = []


def install_spy():
    """Idempotent, for the lifetime of the process."""
    if _SPY_NAMES:
        return list(_SPY_NAMES)
    names = []
    for cname in M.ALL_TAGS:
        cls = getattr(sx, cname, None)
        if cls is None:
            continue
        for attr, fn in list(vars(cls).items()):
            if attr.startswith("_reduce_") and callable(fn):
                label = f"{cname}.{attr}"
                names.append(label)

                def make(fn=fn, label=label):
                    def spy(self, *a, **k):
                        r = fn(self, *a, **k)
                        if r is not None:
                            _SPY_LOG.append(label)
                        return r
                    return spy
                setattr(cls, attr, make())
    _SPY_NAMES[:] = names
    return names


def spy_names():
    return list(_SPY_NAMES)
