"""Redex generator: one template per rewrite rule (left-hand side with generated sub-trees in the
holes and all parameter relations that matter), placed at a generated position of a generated
context, and at every position of n-ary nodes."""
from __future__ import annotations
import math
from hypothesis import strategies as st
from . import model as M
from . import strategies as S


def _sanitize(m):
    from harness.sanitize import sanitize
    return sanitize(m)



NS = [1, 2, 3, 4, 5, 6, 8, 9, 12]
BASES = [math.e, 2, 10, 0.5, 3, 2.0, 0.25]


def C(v):
    return ("Constant", v)


@st.composite
def templates(draw, names, pool=None):
    """(template name, model); pool restricts the template names drawn from"""
    def hole(d=None):
        k = draw(st.integers(0, 5))
        if k == 0 and names:
            # a hole that is positive everywhere / at most points, so that logarithm, root and power templates are
            # actually defined at the generated points
            v = ("Variable", draw(st.sampled_from(names)))
            return draw(st.sampled_from([("Add", (("NthPower", v, 2), ("Constant", 1))), ("Exponential", v, 2), v, ("Constant", 3),
                                         ("Add", (("NthPower", v, 2), ("Constant", 0.5)))]))
        return draw(S.trees(names, depth=draw(st.integers(0, 2)) if d is None else d, const_bias=2))

    def n():
        return draw(st.sampled_from(NS))

    def base():
        return draw(st.sampled_from(BASES))

    def nary(tag, special, extra=(0, 3), wrap=True):
        """special items placed at generated positions among generated other items; some of them negated (in a
        sum) / inverted (in a product), because the n-ary rules and the normal-form pass treat those specially."""
        others = [hole(1) for _ in range(draw(st.integers(*extra)))]
        special = list(special)
        if wrap:
            w = "Negation" if tag == "Add" else "Reciprocal"
            special = [(w, x) if draw(st.integers(0, 4)) == 0 else x for x in special]
        items = others + special
        items = draw(st.permutations(items))
        return (tag, tuple(items))

    def ph():
        """mostly-positive hole for templates whose left-hand side needs positive arguments to be defined"""
        if not names or draw(st.integers(0, 2)) == 0:
            return hole()
        x = ("Variable", draw(st.sampled_from(names)))
        return draw(st.sampled_from([("Add", (("NthPower", x, 2), ("Constant", 1))), ("Exponential", x, 2), x, x, ("Constant", 3),
                                     ("Constant", 0.5), ("Multiply", (x, x)), ("NthPower", x, 4), ("Add", (x, ("Constant", 5)))]))

    name = draw(st.sampled_from(pool or TEMPLATE_NAMES))
    if name in POSITIVE_TEMPLATES:
        u, v, w = ph(), ph(), ph()
    else:
        u, v, w = hole(), hole(), hole()
    if name == "neg-neg":
        m = ("Negation", ("Negation", u))
    elif name == "neg-sum":
        m = ("Negation", nary("Add", [u, v], (0, 2)))
    elif name == "recip-recip":
        m = ("Reciprocal", ("Reciprocal", u))
    elif name == "recip-neg":
        m = ("Reciprocal", ("Negation", u))
    elif name == "recip-product":
        m = ("Reciprocal", nary("Multiply", [u, v], (0, 2)))
    elif name == "cos-neg":
        m = ("Cosine", ("Negation", u))
    elif name == "sin-neg":
        m = ("Sine", ("Negation", u))
    elif name == "minus":
        m = ("Minus", u, v)
    elif name == "divide":
        m = ("Divide", u, v)
    elif name == "add-flatten":
        m = nary("Add", [nary("Add", [u], (0, 3)), v], (0, 2))
    elif name == "add-zeros":
        m = nary("Add", [C(draw(st.sampled_from([0, 0.0, -0.0]))), u], (0, 3))
    elif name == "add-logs-same-base":
        b = base()
        m = nary("Add", [("Logarithm", u, b), ("Logarithm", v, b)] + ([("Logarithm", w, b)] if draw(st.booleans()) else []), (0, 2))
    elif name == "add-logs-mixed-bases":
        b1, b2 = base(), base()
        m = nary("Add", [("Logarithm", u, b1), ("Logarithm", v, b2), ("Logarithm", w, b1)], (0, 2))
    elif name == "add-constants":
        m = nary("Add", [C(draw(S.constants_values())), C(draw(S.constants_values())), u], (0, 2))
    elif name == "mul-flatten":
        m = nary("Multiply", [nary("Multiply", [u], (0, 3)), v], (0, 2))
    elif name == "mul-zero":
        m = nary("Multiply", [C(draw(st.sampled_from([0, 0.0, -0.0]))), u], (0, 3))
    elif name == "mul-ones":
        m = nary("Multiply", [C(draw(st.sampled_from([1, 1.0]))), u], (0, 3))
    elif name == "mul-negations":
        k = draw(st.integers(1, 4))
        m = nary("Multiply", [("Negation", hole(1)) for _ in range(k)], (0, 2))
    elif name == "mul-nth-powers":
        n1 = n()
        n2 = draw(st.sampled_from([n1, n1, n()]))
        m = nary("Multiply", [("NthPower", u, n1), ("NthPower", v, n2), ("NthPower", w, n1)][:draw(st.integers(2, 3))], (0, 2))
    elif name == "mul-nth-roots":
        n1 = n()
        n2 = draw(st.sampled_from([n1, n1, n()]))
        m = nary("Multiply", [("NthRoot", u, n1), ("NthRoot", v, n2), ("NthRoot", w, n1)][:draw(st.integers(2, 3))], (0, 2))
    elif name == "mul-exponentials":
        b1 = draw(st.sampled_from(BASES + [1]))
        b2 = draw(st.sampled_from([b1, b1, base()]))
        m = nary("Multiply", [("Exponential", u, b1), ("Exponential", v, b2), ("Exponential", w, b1)][:draw(st.integers(2, 3))], (0, 2))
    elif name == "mul-constants":
        m = nary("Multiply", [C(draw(S.constants_values())), C(draw(S.constants_values())), u], (0, 2))
    elif name == "pow-one":
        m = ("Power", u, C(draw(st.sampled_from([1, 1.0]))))
    elif name == "pow-zero":
        m = ("Power", u, C(draw(st.sampled_from([0, 0.0]))))
    elif name == "one-pow":
        m = ("Power", C(draw(st.sampled_from([1, 1.0]))), u)
    elif name == "pow-n":
        m = ("Power", u, C(draw(st.sampled_from([2, 3, 4, 5, 2.0, 3.0, 7]))))
    elif name == "pow-minus-one":
        m = ("Power", u, C(draw(st.sampled_from([-1, -1.0]))))
    elif name == "pow-other-constant":
        m = ("Power", u, C(draw(st.sampled_from([0.5, -2, 1.5, -0.5, 2.5]))))
    elif name == "const-base-pow":
        m = ("Power", C(draw(st.sampled_from([2, 0.5, 10, math.e, 3.5, 1, 0, -2, 4.0]))), u)
    elif name == "pow-pow":
        m = ("Power", ("Power", u, v), w)
    elif name == "pow-neg-exponent":
        m = ("Power", u, ("Negation", v))
    elif name == "recip-pow":
        m = ("Power", ("Reciprocal", u), v)
    elif name == "nthpower-one":
        m = ("NthPower", u, draw(st.sampled_from([1, 1.0])))
    elif name == "nthpower-of-root":
        m1 = n()
        n1 = draw(st.sampled_from([m1, m1 * 2, m1 * 3, n(), n(), 2, 3]))
        m = ("NthPower", ("NthRoot", u, m1), n1)
    elif name == "nthpower-of-nthpower":
        m = ("NthPower", ("NthPower", u, n()), n())
    elif name == "nthpower-of-neg":
        m = ("NthPower", ("Negation", u), n())
    elif name == "nthpower-of-recip":
        m = ("NthPower", ("Reciprocal", u), n())
    elif name == "nthpower-of-exp":
        m = ("NthPower", ("Exponential", u, draw(st.sampled_from(BASES + [1]))), n())
    elif name == "root-one":
        m = ("NthRoot", u, draw(st.sampled_from([1, 1.0])))
    elif name == "root-of-nthpower":
        m = ("NthRoot", ("NthPower", u, n()), n())
    elif name == "root-of-root":
        m = ("NthRoot", ("NthRoot", u, n()), n())
    elif name == "root-of-neg":
        m = ("NthRoot", ("Negation", u), n())
    elif name == "root-of-recip":
        m = ("NthRoot", ("Reciprocal", u), n())
    elif name == "exp-of-log":
        b1 = base()
        b2 = draw(st.sampled_from([b1, b1, base()]))
        m = ("Exponential", ("Logarithm", u, b1), b2)
    elif name == "exp-of-neg":
        m = ("Exponential", ("Negation", u), draw(st.sampled_from(BASES + [1])))
    elif name == "log-of-exp":
        b1 = base()
        b2 = draw(st.sampled_from([b1, b1, base(), 1]))
        m = ("Logarithm", ("Exponential", u, b2), b1)
    elif name == "log-of-recip":
        m = ("Logarithm", ("Reciprocal", u), base())
    elif name == "log-of-nthpower":
        m = ("Logarithm", ("NthPower", u, n()), base())
    elif name == "constant-fold":
        m = draw(S.trees([], depth=3))
    elif name == "normal-form-add":
        k = draw(st.integers(0, 3))
        m = nary("Add", [("Negation", hole(1)) for _ in range(k)], (0, 3))
    elif name == "normal-form-mul":
        k = draw(st.integers(0, 3))
        m = nary("Multiply", [("Reciprocal", hole(1)) for _ in range(k)], (0, 3))
    else:
        raise AssertionError(name)
    return name, m


POSITIVE_TEMPLATES = {"add-logs-same-base", "add-logs-mixed-bases", "mul-nth-roots", "pow-one", "pow-zero", "pow-n", "pow-minus-one",
                      "pow-other-constant", "pow-pow", "pow-neg-exponent", "recip-pow", "nthpower-of-root", "root-of-nthpower",
                      "root-of-root", "root-of-recip", "exp-of-log", "log-of-exp", "log-of-recip", "log-of-nthpower"}

TEMPLATE_NAMES = [
    "neg-neg", "neg-sum", "recip-recip", "recip-neg", "recip-product", "cos-neg", "sin-neg", "minus", "divide",
    "add-flatten", "add-zeros", "add-logs-same-base", "add-logs-mixed-bases", "add-constants",
    "mul-flatten", "mul-zero", "mul-ones", "mul-negations", "mul-nth-powers", "mul-nth-roots", "mul-exponentials",
    "mul-constants", "pow-one", "pow-zero", "one-pow", "pow-n", "pow-minus-one", "pow-other-constant", "const-base-pow",
    "pow-pow", "pow-neg-exponent", "recip-pow", "nthpower-one", "nthpower-of-root", "nthpower-of-nthpower",
    "nthpower-of-neg", "nthpower-of-recip", "nthpower-of-exp", "root-one", "root-of-nthpower", "root-of-root",
    "root-of-neg", "root-of-recip", "exp-of-log", "exp-of-neg", "log-of-exp", "log-of-recip", "log-of-nthpower",
    "constant-fold", "normal-form-add", "normal-form-mul",
]


def shard_templates():
    """Stratification: each shard draws its primary template from its own slice of the template list (every template
    belongs to exactly one shard), so that no template can be starved by the distribution of one random choice; the
    secondary (interacting) template still comes from the whole list."""
    import os
    shard, n = int(os.environ.get("VERIF_SHARD", "0")), int(os.environ.get("VERIF_NSHARDS", "1"))
    mine = [t for i, t in enumerate(TEMPLATE_NAMES) if i % max(n, 1) == shard % max(n, 1)]
    return mine or TEMPLATE_NAMES


@st.composite
def placed(draw, names, depth=2):
    """(template name, model): the redex at a generated position of a generated context; sometimes
    two redexes that can interact (one inside the other's hole)."""
    name, red = draw(templates(names, shard_templates()))
    if draw(st.integers(0, 3)) == 0:
        name2, red2 = draw(templates(names))
        ps = M.paths(red2, limit=60)
        red = M.replace(red2, draw(st.sampled_from(ps)), red)
        name = name + "+" + name2
    if draw(st.integers(0, 2)) == 0:
        return name, _sanitize(red)
    outer = draw(S.trees(names, depth=depth))
    ps = M.paths(outer, limit=80)
    return name, _sanitize(M.replace(outer, draw(st.sampled_from(ps)), red))
