"""Reference interpreter over the model AST: "the tree read as ordinary real arithmetic".

Written from the documentation / property C01, not from the repository's formulas.  For every
node it produces

  v    true real value as mpmath.mpf (50 digits),
  q    the same value as an exact Fraction when every operation so far is exact on IEEE doubles
       (then q is always representable as a double), else None,
  eps  first-order running bound on |double result - v| for a straightforward double evaluation,
  st   DEFINED / UNDEF / UNDECIDED / RANGE.

UNDEF    : some sub-expression violates its documented strict domain, decided exactly or with a
           margin of > 4*eps.
UNDECIDED: a domain test is within 4*eps of its boundary and not exact -> case is skipped.
RANGE    : an intermediate leaves [lo, hi] in magnitude -> the property does not speak about it.
"""
from __future__ import annotations
import math
from fractions import Fraction
import mpmath
from mpmath import mpf
from . import model as M

mpmath.mp.dps = 50

U = 2.0 ** -53
DEFINED, UNDEF, UNDECIDED, RANGE = "defined", "undefined", "undecided", "range"
# how the status of children combines: an UNDECIDED child outranks an UNDEF sibling, because nothing above the undecided
# node was computed - the library may go on there and overflow before it ever reaches the undefined sibling
_ORDER = {DEFINED: 0, UNDEF: 1, UNDECIDED: 2, RANGE: 3}
MP_E = mpmath.e
MARGIN = 4.0


class R:
    __slots__ = ("st", "v", "q", "eps", "why")

    def __init__(self, st, v=None, q=None, eps=0.0, why=None):
        self.st = st
        self.v = v
        self.q = q
        self.eps = eps
        self.why = why

    def __repr__(self):
        return f"R({self.st}, v={self.v}, q={self.q}, eps={self.eps}, why={self.why})"


def representable(fr: Fraction) -> bool:
    """Is the rational exactly a (normal-range) double?"""
    if fr == 0:
        return True
    d = fr.denominator
    if d & (d - 1):
        return False
    n = abs(fr.numerator)
    n >>= (n & -n).bit_length() - 1  # strip trailing zero bits
    if n.bit_length() > 53:
        return False
    a = abs(fr)
    return Fraction(1, 2 ** 1000) < a < Fraction(2 ** 1000)


def exact_of(value):
    """Exact Fraction of an int/float coordinate or constant."""
    return Fraction(value)


def to_mpf(fr: Fraction):
    return mpf(fr.numerator) / mpf(fr.denominator)


def _is_e(base):
    return isinstance(base, float) and base == math.e


class RefEval:
    """One evaluation context = one point."""

    def __init__(self, env, lo=1e-100, hi=1e100, const_ulps=0.0, missing_ok=False, keep_eps=False):
        """env: dict name -> int|float.  const_ulps: relative uncertainty (in units of u) given
        to float-typed Constants (used for expressions the library produced, whose constants
        may have been folded in double arithmetic)."""
        self.env = env
        self.lo = lo
        self.hi = hi
        self.const_ulps = const_ulps
        # keep_eps: report the nominal rounding bound of a straightforward double evaluation even when
        # every intermediate happens to be exact (used when the SAME value is recomputed in another
        # association order, e.g. after constants were consolidated)
        self.keep_eps = keep_eps
        self.exp_limit = 250.0 if hi <= 1e100 else (math.log(hi) if hi < math.inf else 700.0)
        self.memo = {}
        self.keep = []
        self.first_bad = None     # (model node, reason) of the first decided domain violation
        self.near = []            # list of (node, distance) for constraints that are close
        self.missing = []         # variable names looked up but absent from env

    # -- helpers ------------------------------------------------------------------------------
    def _rng(self, v):
        a = abs(v)
        return a != 0 and (a > self.hi or a < self.lo)

    def _finish(self, m, v, q, eps):
        if q is not None and not representable(q):
            q = None
            eps = max(eps, U * float(abs(v)))
        if self._rng(v):
            return R(RANGE, why=("magnitude", M.text(m)[:80]))
        if q is not None:
            if not self.keep_eps:
                eps = 0.0
            v = to_mpf(q)
        if not (eps == eps) or eps == math.inf:
            return R(RANGE, why=("eps", M.text(m)[:80]))
        return R(DEFINED, v, q, eps)

    def _bad(self, m, reason):
        if self.first_bad is None:
            self.first_bad = (m, reason)
        return R(UNDEF, why=(reason, m[0]))

    def _nonzero(self, m, r, reason):
        """None if decidedly non-zero, else an R to return."""
        if r.q is not None:
            if r.q == 0:
                return self._bad(m, reason)
            self.near.append((m, float(abs(r.q))))
            return None
        if abs(r.v) <= MARGIN * r.eps or r.v == 0:
            return R(UNDECIDED, why=(reason, m[0]))
        self.near.append((m, float(abs(r.v))))
        return None

    def _positive(self, m, r, reason_zero, reason_neg):
        if r.q is not None:
            if r.q == 0:
                return self._bad(m, reason_zero)
            if r.q < 0:
                return self._bad(m, reason_neg)
            self.near.append((m, float(abs(r.q))))
            return None
        if r.v > MARGIN * r.eps and r.v != 0:
            self.near.append((m, float(abs(r.v))))
            return None
        if r.v < -MARGIN * r.eps:
            return self._bad(m, reason_neg)
        return R(UNDECIDED, why=(reason_zero, m[0]))

    # -- main ---------------------------------------------------------------------------------
    def eval(self, m) -> R:
        k = id(m)
        if k in self.memo:
            return self.memo[k]
        self.keep.append(m)
        try:
            r = self._eval(m)
        except (ZeroDivisionError, OverflowError, mpmath.libmp.NoConvergence) as ex:
            r = R(RANGE, why=("arithmetic", type(ex).__name__))
        self.memo[k] = r
        return r

    def _eval(self, m) -> R:
        t = m[0]
        if t == "Constant":
            c = m[1]
            q = exact_of(c)
            v = to_mpf(q)
            if self.const_ulps and isinstance(c, float):
                if self._rng(v):
                    return R(RANGE, why=("constant", repr(c)))
                return R(DEFINED, v, None, self.const_ulps * U * abs(c))
            return self._finish(m, v, q, 0.0)
        if t == "Variable":
            if m[1] not in self.env:
                self.missing.append(m[1])
                return R(RANGE, why=("missing", m[1]))
            val = self.env[m[1]]
            if isinstance(val, mpf):
                return self._finish(m, val, None, 0.0)
            q = exact_of(val)
            return self._finish(m, to_mpf(q), q, 0.0)

        kids = [self.eval(c) for c in M.children(m)]
        if t == "Power" and kids[1].st == DEFINED and abs(kids[1].v) > 4096:
            # checked before anything else (also when the base is undefined): the simplifier turns such a power into
            # NthPower(u, n) with an astronomically large n whatever the base is worth
            return R(RANGE, why=("power exponent", M.text(m)[:80]))
        worst = max((r.st for r in kids), key=_ORDER.get, default=DEFINED)
        if worst != DEFINED:
            why = next(r.why for r in kids if r.st == worst)
            return R(worst, why=why)

        if t == "Add":
            v = mpf(0)
            q = Fraction(0)
            for r in kids:
                v += r.v
                if q is not None and r.q is not None:
                    q += r.q
                    if not representable(q):
                        q = None
                else:
                    q = None
            n = len(kids)
            eps = sum(r.eps for r in kids) + n * U * float(sum(abs(r.v) for r in kids))
            return self._finish(m, v, q, eps)

        if t == "Multiply":
            if any(r.q is not None and r.q == 0 for r in kids):
                return R(DEFINED, mpf(0), Fraction(0), 0.0)
            v = mpf(1)
            for r in kids:
                v *= r.v
            q = Fraction(1)
            for r in kids:
                if r.q is None:
                    q = None
                    break
                q *= r.q
            eps = 0.0
            n = len(kids)
            for i, r in enumerate(kids):
                if r.eps:
                    o = mpf(1)
                    for j, d in enumerate(kids):
                        if j != i:
                            o *= abs(d.v) + d.eps
                    eps += float(o) * r.eps
            eps += n * U * float(abs(v))
            # partial products must stay in range as well
            pp = mpf(1)
            for r in kids:
                pp *= r.v
                if self._rng(pp):
                    return R(RANGE, why=("partial product", M.text(m)[:80]))
            return self._finish(m, v, q, eps)

        if t == "Minus":
            a, b = kids
            v = a.v - b.v
            q = a.q - b.q if (a.q is not None and b.q is not None) else None
            return self._finish(m, v, q, a.eps + b.eps + U * float(abs(v)))

        if t == "Negation":
            a = kids[0]
            return self._finish(m, -a.v, None if a.q is None else -a.q, a.eps)

        if t == "Divide":
            a, b = kids
            bad = self._nonzero(m, b, "zero denominator")
            if bad is not None:
                return bad
            v = a.v / b.v
            q = a.q / b.q if (a.q is not None and b.q is not None) else None
            bb = float(abs(b.v)) - b.eps
            eps = a.eps / bb + (float(abs(a.v)) / bb) / bb * b.eps + U * float(abs(v))
            return self._finish(m, v, q, eps)

        if t == "Reciprocal":
            a = kids[0]
            bad = self._nonzero(m, a, "reciprocal of zero")
            if bad is not None:
                return bad
            v = 1 / a.v
            q = 1 / a.q if a.q is not None else None
            aa = float(abs(a.v)) - a.eps
            return self._finish(m, v, q, (a.eps / aa) / aa + U * float(abs(v)))

        if t == "NthPower":
            a = kids[0]
            n = int(m[2])
            v = a.v ** n
            if self._rng(v):
                return R(RANGE, why=("nth power", M.text(m)[:80]))
            q = a.q ** n if (a.q is not None and n <= 4096) else None
            eps = n * float((abs(a.v) + a.eps) ** (n - 1)) * a.eps + (n + 1) * U * float(abs(v))
            return self._finish(m, v, q, eps)

        if t == "NthRoot":
            a = kids[0]
            n = int(m[2])
            if n == 1:
                return self._finish(m, a.v, a.q, a.eps)
            if n % 2 == 0:
                bad = self._positive(m, a, "root of zero", "even root of negative")
            else:
                bad = self._nonzero(m, a, "root of zero")
            if bad is not None:
                return bad
            mag = mpmath.root(abs(a.v), n)
            v = mag if a.v > 0 else -mag
            q = None
            if a.q is not None and n == 2:
                num, den = a.q.numerator, a.q.denominator
                rn, rd = math.isqrt(num), math.isqrt(den)
                if rn * rn == num and rd * rd == den:
                    q = Fraction(rn, rd)
            aa = float(abs(a.v)) - a.eps
            k = 1.0 if n == 2 else 2.0 + (abs(float(mpmath.log(abs(a.v)))) / n if n >= 4 else 0.0)
            eps = float(abs(v)) / (n * aa) * a.eps + k * U * float(abs(v))
            return self._finish(m, v, q, eps)

        if t == "Exponential":
            a = kids[0]
            base = m[2]
            if _is_e(base):
                b = MP_E
                bq = None
            else:
                bq = exact_of(base)
                b = to_mpf(bq)
            q = None
            if bq is not None and bq == 1:
                return self._finish(m, mpf(1), Fraction(1), 0.0)
            if a.q is not None and a.q == 0:
                return self._finish(m, mpf(1), Fraction(1), 0.0)
            # magnitude guard before exponentiating something silly
            ln_b = mpmath.log(b)
            if abs(a.v * ln_b) > self.exp_limit:
                return R(RANGE, why=("exponential", M.text(m)[:80]))
            v = mpmath.exp(a.v * ln_b)
            if bq is not None and a.q is not None and a.q.denominator == 1 and abs(a.q) <= 1100:
                q = bq ** int(a.q)
            eps = float(abs(ln_b * v)) * a.eps + (2.0 + float(abs(a.v))) * U * float(abs(v))
            eps *= math.exp(min(50.0, float(abs(ln_b)) * a.eps))
            return self._finish(m, v, q, eps)

        if t == "Logarithm":
            a = kids[0]
            base = m[2]
            bad = self._positive(m, a, "logarithm of zero", "logarithm of negative")
            if bad is not None:
                return bad
            if _is_e(base):
                ln_b = mpf(1)
            else:
                ln_b = mpmath.log(to_mpf(exact_of(base)))
            if a.q is not None and a.q == 1:
                return self._finish(m, mpf(0), Fraction(0), 0.0)
            v = mpmath.log(a.v) / ln_b
            aa = float(abs(a.v)) - a.eps
            eps = a.eps / (aa * float(abs(ln_b))) + 4 * U * float(abs(v))
            return self._finish(m, v, None, eps)

        if t == "Cosine":
            a = kids[0]
            if a.q is not None and a.q == 0:
                return self._finish(m, mpf(1), Fraction(1), 0.0)
            if abs(a.v) > 1e30:
                return R(RANGE, why=("trig argument", M.text(m)[:80]))
            v = mpmath.cos(a.v)
            eps = (float(abs(mpmath.sin(a.v))) + a.eps) * a.eps + 2 * U * max(float(abs(v)), 1e-3)
            return self._finish(m, v, None, eps)

        if t == "Sine":
            a = kids[0]
            if a.q is not None and a.q == 0:
                return self._finish(m, mpf(0), Fraction(0), 0.0)
            if abs(a.v) > 1e30:
                return R(RANGE, why=("trig argument", M.text(m)[:80]))
            v = mpmath.sin(a.v)
            eps = (float(abs(mpmath.cos(a.v))) + a.eps) * a.eps + 2 * U * max(float(abs(v)), 1e-3 * min(1.0, float(abs(a.v))))
            return self._finish(m, v, None, eps)

        if t == "Power":
            a, b = kids
            if abs(b.v) > 4096:
                # a^b with such an exponent is out of range unless a is within 1e-2 of one; rewriting to an
                # integer power of an int constant would make CPython compute a gigantic exact integer
                return R(RANGE, why=("power exponent", M.text(m)[:80]))
            if a.q is not None:
                if a.q == 0:
                    return self._bad(m, "power with base zero")
                if a.q < 0:
                    return self._bad(m, "power with negative base")
                self.near.append((m, float(a.q)))
            else:
                if a.v < -MARGIN * a.eps:
                    return self._bad(m, "power with negative base")
                if not (a.v > MARGIN * a.eps):
                    return R(UNDECIDED, why=("power base near zero", m[0]))
                self.near.append((m, float(a.v)))
            ln_a = mpmath.log(a.v)
            if abs(b.v * ln_a) > self.exp_limit:
                return R(RANGE, why=("power", M.text(m)[:80]))
            if a.q is not None and a.q == 1:
                return self._finish(m, mpf(1), Fraction(1), 0.0)
            if b.q is not None and b.q == 0:
                return self._finish(m, mpf(1), Fraction(1), 0.0)
            v = mpmath.exp(b.v * ln_a)
            q = None
            if a.q is not None and b.q is not None and b.q.denominator == 1 and abs(b.q) <= 1100:
                q = a.q ** int(b.q)
            aa = float(a.v) - a.eps
            eps = (float(abs(b.v * v)) / aa) * a.eps + float(abs(ln_a * v)) * b.eps \
                + (2.0 + float(abs(b.v))) * U * float(abs(v))
            if a.eps or b.eps:
                eps *= math.exp(min(50.0, float(abs(b.v)) * a.eps / aa + float(abs(ln_a)) * b.eps))
            return self._finish(m, v, q, eps)

        raise ValueError(f"bad model tag {t!r}")


def evaluate(m, env, **kw):
    ctx = RefEval(env, **kw)
    r = ctx.eval(m)
    return r, ctx


# ---------------------------------------------------------------------------------------------
# Exact rational evaluation of the rational-function fragment (polynomial identity testing).

RATIONAL_TAGS = ("Constant", "Variable", "Add", "Multiply", "Minus", "Negation", "Divide",
                 "Reciprocal", "NthPower")


def is_rational_fragment(m):
    return all(x[0] in RATIONAL_TAGS for x in M.subterms(m))


class FracUndefined(Exception):
    pass


def frac_eval(m, env, memo=None):
    """Exact value of a rational-function model at a rational point (env: name -> Fraction).
    Raises FracUndefined on a zero denominator."""
    if memo is None:
        memo = {}

    def go(x):
        k = id(x)
        if k in memo:
            return memo[k]
        t = x[0]
        if t == "Constant":
            r = Fraction(x[1])
        elif t == "Variable":
            r = env[x[1]]
        elif t == "Add":
            r = sum((go(c) for c in x[1]), Fraction(0))
        elif t == "Multiply":
            r = Fraction(1)
            for c in x[1]:
                r *= go(c)
        elif t == "Minus":
            r = go(x[1]) - go(x[2])
        elif t == "Negation":
            r = -go(x[1])
        elif t == "Divide":
            a, b = go(x[1]), go(x[2])
            if b == 0:
                raise FracUndefined()
            r = a / b
        elif t == "Reciprocal":
            a = go(x[1])
            if a == 0:
                raise FracUndefined()
            r = 1 / a
        elif t == "NthPower":
            if int(x[2]) > 100000:
                raise ValueError("frac_eval: exponent too large for exact rational arithmetic (generators cap power towers)")
            r = go(x[1]) ** int(x[2])
        else:
            raise ValueError(t)
        memo[k] = r
        return r
    return go(m)
