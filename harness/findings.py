"""Matchers and witnesses for known findings (see /verif/known_findings.txt and DESIGN.md section 5).

KF1  NthRoot(NthPower(u, m), n) => NthPower(NthRoot(u, n), m) fires for m and n both even, where it
     shrinks the domain (u < 0) and, after the follow-up rule, changes the value.
     Attribution is by *call site*: a failure is attributed to KF1 only if it disappears when exactly
     that rule instance (both parameters even) is suppressed in-process and nothing else changes.
KF2  shape of a step-budget-exhausted result depends on memo flags of shared operand nodes.
     Attribution: the library's own budget warning fired during the compared operation and the two
     results agree in value.
"""
from __future__ import annotations
import contextlib
from . import known


@contextlib.contextmanager
def kf1_suppressed():
    """Suppresses exactly the both-even instance of the root-of-power rule (harness-side monkeypatch,
    restored on exit).  Yields False if the rule cannot be located (then nothing is attributed)."""
    import smoothmath.expression as sx
    cls = sx.NthRoot
    name = "_reduce_nth_root_of_mth_power"
    orig = cls.__dict__.get(name)
    if orig is None:
        yield False
        return

    def guarded(self):
        inner = self._inner
        if isinstance(inner, sx.NthPower) and self.n % 2 == 0 and inner.n % 2 == 0:
            return None
        return orig(self)
    setattr(cls, name, guarded)
    try:
        yield True
    finally:
        setattr(cls, name, orig)


def attributable_to_kf1(prop_id, still_fails):
    """still_fails: thunk re-running the failing sub-check from scratch, True if it fails.
    Returns True iff KF1 is listed for prop_id and the failure vanishes under suppression."""
    if not known.listed(prop_id, "KF1"):
        return False
    with kf1_suppressed() as ok:
        if not ok:
            return False
        try:
            return not still_fails()
        except Exception:  # noqa: cannot attribute -> report
            return False


# ---------------------------------------------------------------------------------------------
# witnesses: return a truthy value while the finding still reproduces on the current tree

def _kf1_c08():
    import smoothmath.expression as sx
    e = sx.NthRoot(sx.NthPower(sx.Variable("x"), 2), 2)
    before = e.at(-3)
    after = e._normalize()
    try:
        return after.at(-3) != before
    except Exception:  # noqa
        return True


def _kf1_c05():
    import smoothmath.expression as sx
    from smoothmath import Derivative
    e = sx.NthRoot(sx.NthPower(sx.Variable("x"), 2), 2)        # |x|, derivative -1 at x = -3
    try:
        return Derivative(e).as_expression().at(-3) != -1.0
    except Exception:  # noqa
        return True


def _kf1_c06():
    import smoothmath.expression as sx
    from smoothmath import Derivative
    e = sx.NthRoot(sx.NthPower(sx.Variable("x"), 2), 2)
    try:
        return Derivative(e).at(-3) != Derivative(e, compute_early=True).at(-3)
    except Exception:  # noqa
        return True


def _kf1_c07():
    import smoothmath.expression as sx
    from smoothmath import Derivative, DomainError
    # sqrt(x^2) * sqrt(x^2) ... derivative of NthRoot(NthPower(x,2),4) simplifies through NthRoot(x, 4)
    e = sx.NthRoot(sx.NthPower(sx.Variable("x"), 2), 4)
    try:
        e.at(-3)
    except Exception:  # noqa
        return False
    try:
        Derivative(e, compute_early=True).at(-3)
        return False
    except DomainError:
        return True
    except Exception:  # noqa
        return True


WITNESS = {
    ("C08", "KF1"): _kf1_c08,
    ("C05", "KF1"): _kf1_c05,
    ("C06", "KF1"): _kf1_c06,
    ("C07", "KF1"): _kf1_c07,
}


def _kf2_c09():
    """Replays the recorded history: as_expression() of a ~90-node expression over shared sub-expressions,
    after as_expression() calls on those sub-expressions; truthy while the shapes still differ."""
    import json
    import os
    from . import history as H
    path = os.path.join(os.path.dirname(os.path.dirname(os.path.abspath(__file__))), "findings", "KF2-witness.json")
    with open(path) as f:
        case = json.load(f)
    try:
        w = H.replay_history("c09", case["history"])
    except H.Mismatch:
        return True
    return w.known_kf2 > 0


WITNESS[("C09", "KF2")] = _kf2_c09
