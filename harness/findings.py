"""Matchers and witnesses for known findings (see /verif/known_findings.txt and DESIGN.md section 5)."""
from __future__ import annotations

# (property id, finding id) -> callable returning a truthy value while the witness still fails
WITNESS = {}
