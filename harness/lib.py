"""Calling the library and classifying what comes back."""
from __future__ import annotations
import math
import traceback
import logging
import smoothmath
from smoothmath import DomainError, CoordinateMissing, Point, Partial, Derivative, Differential, LocatedDifferential

NUM, EXPR, OBJ, DOM, MISS, OVF, EXC, WEIRD = "num", "expr", "obj", "DomainError", "CoordinateMissing", "OverflowError", "exc", "weird"


class Out:
    __slots__ = ("kind", "value", "detail")

    def __init__(self, kind, value=None, detail=None):
        self.kind = kind
        self.value = value
        self.detail = detail

    def __repr__(self):
        if self.kind == NUM:
            return f"number {self.value!r}"
        if self.kind == EXPR:
            return f"expression {self.value!r}"
        if self.kind in (EXC, WEIRD):
            return f"{self.kind} {self.detail}"
        return self.kind

    def key(self):
        """Comparable summary (bit exact for numbers, repr for expressions)."""
        if self.kind == NUM:
            v = self.value
            return (NUM, type(v).__name__, v.hex() if isinstance(v, float) else str(v))
        if self.kind == EXPR:
            return (EXPR, repr(self.value))
        if self.kind in (EXC, WEIRD):
            return (self.kind, self.detail)
        return (self.kind,)


def is_real_number(v):
    return isinstance(v, (int, float)) and not isinstance(v, bool) and (not isinstance(v, float) or math.isfinite(v))


def innermost_smoothmath_frame(tb):
    last = None
    for fs in traceback.extract_tb(tb):
        if "smoothmath" in fs.filename:
            last = f"{fs.filename.split('smoothmath/')[-1]}:{fs.name}"
    return last


def call(f) -> Out:
    try:
        v = f()
    except DomainError as ex:
        return Out(DOM, detail=str(ex)[:300])
    except CoordinateMissing as ex:
        return Out(MISS, detail=str(ex)[:300])
    except OverflowError as ex:
        return Out(OVF, detail=str(ex))
    except MemoryError:
        # resource exhaustion on astronomically large exact integers: same class as overflow
        return Out(OVF, detail="MemoryError")
    except RecursionError:
        raise
    except Exception as ex:  # noqa: classification is the point
        return Out(EXC, detail=(type(ex).__name__, innermost_smoothmath_frame(ex.__traceback__), str(ex)[:120]))
    if isinstance(v, smoothmath.Expression):
        return Out(EXPR, v)
    if is_real_number(v):
        return Out(NUM, v)
    if isinstance(v, (LocatedDifferential, Partial, Derivative, Differential, Point)):
        return Out(OBJ, v)
    return Out(WEIRD, v, detail=(type(v).__name__, repr(v)[:80]))


class WarningCounter(logging.Handler):
    """Counts the library's 'Unable to fully reduce' warnings (root logger)."""

    def __init__(self):
        super().__init__(level=logging.WARNING)
        self.n = 0

    def emit(self, record):
        try:
            msg = record.getMessage()
        except Exception:  # noqa
            msg = ""
        if "fully reduce" in msg:
            self.n += 1


_counter = None


def budget_warnings():
    """Installs (once) and returns the handler counting step-budget warnings."""
    global _counter
    if _counter is None:
        _counter = WarningCounter()
    root = logging.getLogger()
    if _counter not in root.handlers:
        root.addHandler(_counter)
    return _counter
