"""Model -> smoothmath objects (with or without sharing) and back."""
from __future__ import annotations
import smoothmath
import smoothmath.expression as sx
from . import model as M


class HarnessError(Exception):
    """Something is wrong with the harness or with its assumptions about the code's shape
    (never a property violation).  Exit code 2."""


CLASSES = {name: getattr(sx, name) for name in M.ALL_TAGS}


def build(m, share=True, memo=None):
    """Build the smoothmath expression for model m.

    share=True : one object per distinct model node *object* (DAG as generated).
    share=False: a completely fresh tree, no object occurs twice (not even leaves).
    """
    if memo is None:
        memo = {}

    def go(x):
        k = id(x)
        if share and k in memo:
            return memo[k]
        t = x[0]
        if t == "Constant":
            r = sx.Constant(x[1])
        elif t == "Variable":
            r = sx.Variable(x[1])
        elif t in M.UNARY:
            r = CLASSES[t](go(x[1]))
        elif t in M.PARAM_N:
            r = CLASSES[t](go(x[1]), n=x[2])
        elif t in M.PARAM_BASE:
            r = CLASSES[t](go(x[1]), base=x[2])
        elif t in M.BINARY:
            r = CLASSES[t](go(x[1]), go(x[2]))
        elif t in M.NARY:
            r = CLASSES[t](*[go(c) for c in x[1]])
        else:
            raise HarnessError(f"bad model tag {t!r}")
        if share:
            memo[k] = r
        return r
    return go(m)


def fresh(m):
    return build(m, share=False)


def point(p):
    """dict -> Point ; a bare number stays a bare number."""
    if isinstance(p, dict):
        return smoothmath.Point(**p)
    return p


def to_model(e, memo=None):
    """Structural walk over a smoothmath expression.  Object identity is preserved: the same
    expression object maps to the same tuple object."""
    if memo is None:
        memo = {}
    keep = []  # keeps the walked objects alive so ids stay unique during the walk

    def go(x):
        k = id(x)
        if k in memo:
            return memo[k]
        keep.append(x)
        t = x.__class__.__name__
        try:
            if t == "Constant":
                r = (t, x.value)
            elif t == "Variable":
                r = (t, x.name)
            elif t in M.UNARY:
                r = (t, go(x._inner))
            elif t in M.PARAM_N:
                r = (t, go(x._inner), x.n)
            elif t in M.PARAM_BASE:
                r = (t, go(x._inner), x.base)
            elif t in M.BINARY:
                r = (t, go(x._left), go(x._right))
            elif t in M.NARY:
                r = (t, tuple(go(c) for c in x._inners))
            else:
                raise HarnessError(f"to_model: not a smoothmath expression: {type(x)!r}")
        except AttributeError as ex:
            raise HarnessError(f"to_model: cannot walk {t}: {ex}") from ex
        memo[k] = r
        return r
    return go(e)


def is_expression(x):
    return isinstance(x, smoothmath.Expression)
