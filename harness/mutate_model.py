"""One-change mutator: from a model produce a sibling differing in exactly one parameter, one leaf,
one argument swap, one arity change (structurally UNEQUAL), or one int<->float spelling (EQUAL)."""
from __future__ import annotations
import math
from hypothesis import strategies as st
from . import model as M

KINDS = ["param", "leaf", "swap", "arity", "tag", "spelling"]
# CPython hash collisions of unequal numbers: hash(-1) == hash(-2); hash(n) == hash(n mod (2**61 - 1))
COLLIDE = {-1: -2, -2: -1}      # (the 2**61-sized collisions are left out: evaluating 2 ** Constant(2**61) never returns)


def _respell(v):
    if isinstance(v, bool):
        return None
    if isinstance(v, int) and abs(v) < 2 ** 53:
        return float(v)
    if isinstance(v, float) and v.is_integer() and abs(v) < 2 ** 53:
        return int(v)
    return None


@st.composite
def sibling(draw, m, names=("x", "y", "z")):
    """(kind, sibling model, expect_equal) or None when the drawn change does not apply anywhere."""
    kind = draw(st.sampled_from(KINDS))
    ps = M.paths(m, limit=200)
    cands = []
    for p in ps:
        x = M.get(m, p)
        t = x[0]
        if kind == "param" and (t in M.PARAM_N or t in M.PARAM_BASE):
            cands.append(p)
        elif kind == "leaf" and t in M.LEAVES:
            cands.append(p)
        elif kind == "swap" and ((t in M.BINARY and M.canon(x[1]) != M.canon(x[2])) or
                                 (t in M.NARY and len({M.canon(c) for c in x[1]}) >= 2)):
            cands.append(p)
        elif kind == "arity" and t in M.NARY:
            cands.append(p)
        elif kind == "tag" and t not in M.LEAVES:
            cands.append(p)
        elif kind == "spelling":
            if t == "Constant" and _respell(x[1]) is not None:
                cands.append(p)
            elif (t in M.PARAM_N or t in M.PARAM_BASE) and _respell(x[2]) is not None:
                cands.append(p)
    if not cands:
        return None
    p = draw(st.sampled_from(cands))
    x = M.get(m, p)
    t = x[0]
    if kind == "param":
        if t in M.PARAM_N:
            new = draw(st.sampled_from([n for n in (1, 2, 3, 4, 5, 6, 7, 8, 9, 12, 13) if n != int(x[2])]))
        else:
            cur = float(x[2])
            near = [math.nextafter(cur, math.inf), math.nextafter(cur, 0.0), cur * (1 + 1e-10), cur * (1 - 1e-12),
                    float(f"{cur:.10g}"), float(f"{cur:.15g}")]
            opts = [b for b in [math.e, 2, 10, 3, 0.5, 0.1, 4, 2.5] + near
                    if b != x[2] and b > 0 and not (t == "Logarithm" and b == 1)]
            new = draw(st.sampled_from(opts))
        y = (t, x[1], new)
    elif kind == "leaf":
        if t == "Constant":
            if isinstance(x[1], (int, float)) and x[1] in COLLIDE and x[1] == int(x[1]) and draw(st.integers(0, 2)) == 0:
                return kind, M.replace(m, p, ("Constant", COLLIDE[int(x[1])])), False
            cur = float(x[1]) if isinstance(x[1], (int, float)) and abs(x[1]) < 1e300 else 7.0
            near = [math.nextafter(cur, math.inf), math.nextafter(cur, -math.inf), float(f"{cur:.15g}"), float(f"{cur:.12g}"), -cur]
            new = draw(st.sampled_from([v for v in [0, 1, -1, 2, 0.5, 3, -2, 1e-9, cur + 1] + near if v != x[1]]))
            y = ("Constant", new) if draw(st.integers(0, 3)) else ("Variable", names[0])
        else:
            others = [n for n in list(names) + ["xx", "X", "x_"] if n != x[1]]
            y = ("Variable", draw(st.sampled_from(others))) if draw(st.integers(0, 3)) else ("Constant", 1)
    elif kind == "swap":
        if t in M.BINARY:
            y = (t, x[2], x[1])
        else:
            kids = list(x[1])
            idx = [(i, j) for i in range(len(kids)) for j in range(i + 1, len(kids)) if M.canon(kids[i]) != M.canon(kids[j])]
            i, j = draw(st.sampled_from(idx))
            kids[i], kids[j] = kids[j], kids[i]
            y = (t, tuple(kids))
    elif kind == "arity":
        kids = list(x[1])
        if kids and draw(st.booleans()):
            kids.pop(draw(st.integers(0, len(kids) - 1)))
        else:
            kids.insert(draw(st.integers(0, len(kids))), draw(st.sampled_from([("Constant", 0), ("Constant", 1), ("Variable", names[0])] + kids)))
        y = (t, tuple(kids))
    elif kind == "tag":
        if t in M.UNARY:
            y = (draw(st.sampled_from([u for u in M.UNARY if u != t])), x[1])
        elif t in M.PARAM_N:
            y = ("NthRoot" if t == "NthPower" else "NthPower", x[1], x[2])
        elif t in M.PARAM_BASE:
            if t == "Exponential" and x[2] == 1:
                y = ("NthPower", x[1], 1)
            else:
                y = ("Logarithm" if t == "Exponential" else "Exponential", x[1], x[2])
        elif t in M.BINARY:
            y = (draw(st.sampled_from([u for u in M.BINARY if u != t])), x[1], x[2])
        else:
            y = ("Multiply" if t == "Add" else "Add", x[1])
    else:
        if t == "Constant":
            y = ("Constant", _respell(x[1]))
        else:
            y = (t, x[1], _respell(x[2]))
    return kind, M.replace(m, p, y), kind == "spelling"
