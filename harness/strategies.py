"""Hypothesis strategies for models, DAGs, points and parameters.

Sound first: only arguments the constructors document (n >= 1 integer, base > 0, log base != 1,
names = non-empty word-character strings, finite real coordinates).
"""
from __future__ import annotations
import math
from hypothesis import strategies as st
from . import model as M


def _sanitize(m):
    from harness.sanitize import sanitize
    return sanitize(m)



NAMES = ["x", "y", "z", "w", "t"]

CONST_POOL = [0, 1, -1, 2, -2, 3, 0.5, -0.5, 0.25, 4, 8, math.e, 1.0, 2.0, 0.0, -1.0, 3.0, 10, -3, 1.5]
N_POOL = [1, 2, 3, 4, 5, 6, 7, 8, 9, 12, 2.0, 3.0, 1.0]
E_NEAR = [math.nextafter(math.e, 3.0), math.nextafter(math.e, 0.0), 2.718281828, 2.71828]
EXP_BASES = [math.e, 2, 10, 3, 0.5, 0.1, 1, 2.0, 1.0, 4, 0.25] + E_NEAR + [math.nextafter(1.0, 2.0), math.nextafter(1.0, 0.0)]
LOG_BASES = [math.e, 2, 10, 3, 0.5, 0.1, 2.0, 4, 0.25] + E_NEAR + [math.nextafter(1.0, 2.0), math.nextafter(1.0, 0.0)]


def small_floats(lo=-8.0, hi=8.0):
    return st.floats(min_value=lo, max_value=hi, allow_nan=False, allow_infinity=False, allow_subnormal=False)


def dyadics():
    return st.builds(lambda n, k: n / (2 ** k), st.integers(-64, 64), st.integers(0, 5))


def constants_values():
    return st.one_of(
        st.sampled_from(CONST_POOL),
        st.integers(-9, 9),
        dyadics(),
        small_floats(),
    )


def coordinate_values():
    return st.one_of(
        st.integers(-5, 5),
        st.sampled_from([0, 1, -1, 2, -2, 3, -3, 0.5, -0.5, 1.5, -1.5, 0.25, 1.0, 2.0, 0.0]),
        dyadics(),
        small_floats(),
        st.floats(min_value=-1e-3, max_value=1e-3, allow_nan=False, allow_subnormal=False),
    )


def extreme_values():
    """Magnitudes far from 1 but well inside the double range (1e-250 .. 1e250), both signs, plus ordinary values."""
    big = st.builds(lambda m, k, sg: sg * m * 10.0 ** k, st.sampled_from([1.0, 2.5, 7.0, 1.5]),
                    st.one_of(st.integers(-250, -100), st.integers(100, 250), st.integers(-30, 30)), st.sampled_from([1, -1]))
    return st.one_of(big, big, st.sampled_from([0, 1, -1, 2, 0.5, 0.0, 1e-200, -1e-200, 1e200, 1e-160, 1e-170, 3e-155]), st.integers(-3, 3))


def extreme_leaves(names):
    opts = [extreme_values().map(lambda v: ("Constant", v))]
    if names:
        opts += [st.sampled_from(names).map(lambda n: ("Variable", n))] * 2
    return st.one_of(*opts)


def exp_bases():
    return st.one_of(st.sampled_from(EXP_BASES), st.floats(min_value=0.05, max_value=20.0, allow_nan=False))


def log_bases():
    return st.one_of(st.sampled_from(LOG_BASES),
                     st.floats(min_value=0.05, max_value=20.0, allow_nan=False).filter(lambda b: b != 1))


def ns():
    return st.sampled_from(N_POOL)


def name_lists(min_size=1, max_size=5):
    return st.integers(min_size, max_size).map(lambda k: NAMES[:k])


def leaves(names, const_bias=4):
    """const_bias/10 of leaves are constants."""
    opts = []
    if names:
        opts.append(st.sampled_from(names).map(lambda n: ("Variable", n)))
    opts.append(constants_values().map(lambda v: ("Constant", v)))
    if not names:
        return opts[0]
    return st.integers(0, 9).flatmap(lambda k: opts[1] if k < const_bias else opts[0])


@st.composite
def trees(draw, names, depth=4, pool=None, tags=None, max_arity=5, leaf=None, const_bias=4):
    """A model tree.  pool: earlier definitions that may be used as children (same object ->
    shared sub-expression)."""
    if leaf is None:
        leaf = leaves(names, const_bias)
    tags = tags or M.ALL_TAGS[2:]

    def sub(d):
        if pool and draw(st.integers(0, 9)) < 3:
            return draw(st.sampled_from(pool))
        if d <= 0 or draw(st.integers(0, 9)) < 2:
            return draw(leaf)
        t = draw(st.sampled_from(tags))
        if t in M.UNARY:
            return (t, sub(d - 1))
        if t in M.PARAM_N:
            return (t, sub(d - 1), draw(ns()))
        if t == "Exponential":
            return (t, sub(d - 1), draw(exp_bases()))
        if t == "Logarithm":
            return (t, sub(d - 1), draw(log_bases()))
        if t in M.BINARY:
            a = sub(d - 1)
            # sometimes the sibling is a structurally EQUAL but separately built sub-tree (not the same object)
            b = M.clone(a) if (a[0] not in M.LEAVES and draw(st.integers(0, 7)) == 0) else sub(d - 1)
            return (t, a, b)
        k = draw(st.sampled_from([0, 1, 2, 2, 2, 3, 3, 4, max_arity]))
        kids = [sub(d - 1) for _ in range(k)]
        if k >= 2 and kids[0][0] not in M.LEAVES and draw(st.integers(0, 7)) == 0:
            kids[draw(st.integers(1, k - 1))] = M.clone(kids[0])
        return (t, tuple(kids))
    return _sanitize(sub(depth))


@st.composite
def dags(draw, names, max_defs=5, depth=2, tags=None, const_bias=3):
    """let-list: definition i may use leaves and definitions < i as children; the builder maps
    every definition to one object."""
    k = draw(st.integers(1, max_defs))
    pool = []
    for _ in range(k):
        node = draw(trees(names, depth=depth, pool=list(pool), tags=tags, const_bias=const_bias))
        pool.append(node)
    root = pool[-1]
    if len(pool) >= 2 and draw(st.booleans()):
        # make sure sharing really happens: combine the last definitions once more
        a = draw(st.sampled_from(pool))
        b = draw(st.sampled_from(pool))
        t = draw(st.sampled_from(["Add", "Multiply", "Minus", "Divide", "Power"]))
        root = (t, (a, b, root)) if t in M.NARY else (t, a, root) if draw(st.booleans()) else (t, root, b)
    return _sanitize(root)


@st.composite
def chains(draw, names, max_len=40):
    """Deep unary chains (depth is its own branch so it really occurs)."""
    n = draw(st.integers(3, max_len))
    m = draw(leaves(names, 2))
    for _ in range(n):
        t = draw(st.sampled_from(M.UNARY + M.PARAM_N + M.PARAM_BASE))
        if t in M.UNARY:
            m = (t, m)
        elif t in M.PARAM_N:
            m = (t, m, draw(st.sampled_from([1, 2, 3, 5])))
        elif t == "Exponential":
            m = (t, m, draw(st.sampled_from([math.e, 2, 0.5, 1])))
        else:
            m = (t, m, draw(st.sampled_from([math.e, 2, 0.5])))
    return _sanitize(m)


@st.composite
def wide(draw, names, max_arity=12):
    t = draw(st.sampled_from(M.NARY))
    k = draw(st.integers(4, max_arity))
    kids = tuple(draw(trees(names, depth=1)) for _ in range(k))
    m = (t, kids)
    if draw(st.booleans()):
        t2 = draw(st.sampled_from(M.NARY))
        m = (t2, (draw(leaves(names)), m, draw(trees(names, depth=1))))
    return m


@st.composite
def covering(draw, names, depth=2, tags=None):
    """An expression in which every name really occurs (several variables at once), built from
    one generated sub-tree per name joined by generated binary / n-ary operators."""
    parts = []
    for n in names:
        t = draw(trees(names, depth=depth, tags=tags, const_bias=2))
        op = draw(st.sampled_from(["Multiply", "Add", "Minus", "Divide", "Power", "none"]))
        v = ("Variable", n)
        if tags is not None and op not in tags:
            op = "Add" if "Add" in tags else "none"
        if op == "none":
            parts.append(v if draw(st.booleans()) else ("Add", (t, v)))
        elif op in M.NARY:
            parts.append((op, (t, v)) if draw(st.booleans()) else (op, (v, t)))
        else:
            parts.append((op, t, v) if draw(st.booleans()) else (op, v, t))
    root = parts[0]
    for p in parts[1:]:
        op = draw(st.sampled_from(["Multiply", "Add", "Minus", "Divide"]))
        if tags is not None and op not in tags:
            op = "Add" if "Add" in tags else "Multiply"
        if op in M.NARY:
            root = (op, (root, p, root)) if draw(st.integers(0, 4)) == 0 else (op, (root, p))
        else:
            root = (op, root, p)
    return _sanitize(root)


def expressions(names, depth=4, tags=None):
    """The general mix: trees (50 %), DAGs (20 %), all-variables-occur (15 %), chains, wide nodes."""
    return st.integers(0, 19).flatmap(
        lambda k: trees(names, depth=depth, tags=tags) if k < 10
        else dags(names, tags=tags) if k < 14
        else covering(names, tags=tags) if k < 17
        else chains(names) if k < 18 and tags is None
        else wide(names) if tags is None
        else trees(names, depth=depth, tags=tags))


@st.composite
def points(draw, names, extra=True):
    """dict name -> number (complete for `names`, in generated order, maybe with extras)."""
    order = draw(st.permutations(list(names))) if names else []
    p = {}
    for n in order:
        p[n] = draw(coordinate_values())
    if extra and draw(st.integers(0, 4)) == 0:
        p["extra"] = draw(coordinate_values())
    return p


POLY_TAGS = ("Add", "Multiply", "Minus", "Negation", "NthPower")
RATIONAL_TAGS = POLY_TAGS + ("Divide", "Reciprocal")


def int_leaves(names):
    opts = [st.integers(-4, 4).map(lambda v: ("Constant", v))]
    if names:
        opts.append(st.sampled_from(names).map(lambda n: ("Variable", n)))
        opts.append(st.sampled_from(names).map(lambda n: ("Variable", n)))
    return st.one_of(*opts)


def dyadic_leaves(names):
    opts = [st.integers(-4, 4).map(lambda v: ("Constant", v)),
            st.sampled_from([0.5, -0.5, 0.25, 1.5, 2.0, -1.0, 0.0]).map(lambda v: ("Constant", v))]
    if names:
        opts.append(st.sampled_from(names).map(lambda n: ("Variable", n)))
        opts.append(st.sampled_from(names).map(lambda n: ("Variable", n)))
    return st.one_of(*opts)


@st.composite
def poly_trees(draw, names, depth=3, tags=POLY_TAGS, leaf=None):
    """Polynomial / rational-function fragment with small n."""
    leaf = dyadic_leaves(names) if leaf is None else leaf

    def sub(d):
        if d <= 0 or draw(st.integers(0, 9)) < 2:
            return draw(leaf)
        t = draw(st.sampled_from(tags))
        if t in M.UNARY:
            return (t, sub(d - 1))
        if t == "NthPower":
            return (t, sub(d - 1), draw(st.sampled_from([1, 2, 3, 4, 2.0])))
        if t in M.BINARY:
            return (t, sub(d - 1), sub(d - 1))
        k = draw(st.sampled_from([0, 1, 2, 2, 3, 4]))
        return (t, tuple(sub(d - 1) for _ in range(k)))
    return sub(depth)


def exact_points(names):
    vals = st.one_of(st.integers(-4, 4), st.sampled_from([0.5, -0.5, 1.5, 0.25, 2.0, -1.0, -2.5, 3]))
    return st.fixed_dictionaries({n: vals for n in names})


# ---------------------------------------------------------------------------------------------
# variable names (C14/C16)

LEGAL_SPECIAL = ["self", "whatever", "_", "__", "_x", "x_1", "1", "007", "1x", "lambda", "class", "None",
                 "point", "kwargs", "variable", "name", "é", "ß", "Ω", "变量", "x²", "٣", "x١", "ǅ", "_private",
                 "compute_early", "expression", "other", "args", "inner", "n", "base", "value", "left", "right"]


_API_NAMES = None


def api_names():
    """Names the library itself uses: parameters of every public callable and attribute names of live objects.
    A keyword-argument or attribute clash can only happen with one of these, whatever they are called."""
    global _API_NAMES
    if _API_NAMES is None:
        import inspect
        import smoothmath
        import smoothmath.expression as sx
        found = set()
        classes = [getattr(smoothmath, n) for n in smoothmath.__all__] + [getattr(sx, n) for n in sx.__all__]
        for cls in classes:
            for attr, val in list(vars(cls).items()) + [("__init__", getattr(cls, "__init__", None))]:
                if callable(val):
                    try:
                        found.update(inspect.signature(val).parameters)
                    except (TypeError, ValueError):
                        pass
        try:
            x = sx.Variable("x")
            objs = [x, sx.Constant(1), sx.Add(x, x), sx.Minus(x, x), sx.NthPower(x, 2), sx.Exponential(x), smoothmath.Point(x=1),
                    smoothmath.Partial(x, "x"), smoothmath.Derivative(x), smoothmath.Differential(x),
                    smoothmath.LocatedDifferential(x, smoothmath.Point(x=1))]
            for o in objs:
                found.update(vars(o))
        except Exception:  # noqa
            pass
        ok = sorted(n for n in found if n and all(c.isalnum() or c == "_" for c in n))
        _API_NAMES = ok or ["self"]
    return _API_NAMES


def legal_names():
    word = st.characters(categories=["Lu", "Ll", "Lt", "Lm", "Lo", "Nd"], include_characters="_")
    return st.one_of(
        st.sampled_from(NAMES),
        st.sampled_from(LEGAL_SPECIAL),
        st.sampled_from(api_names()),
        st.text(alphabet=st.sampled_from("abcxyz_019"), min_size=1, max_size=6),
        st.text(alphabet=word, min_size=1, max_size=4),
    )
