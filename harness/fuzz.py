"""Coverage-guided stage (thorough tier): atheris/libFuzzer drives the SAME Hypothesis property through
`test.hypothesis.fuzz_one_input`, with smoothmath instrumented for coverage feedback.

Run as a subprocess:  python -B -m harness.fuzz <ID> <part-maker> --runs N --seed S --out FILE
Violations are recorded (deduplicated by signature) and fuzzing continues, so one campaign can
enumerate several root causes; statistics are flushed to FILE periodically because atheris exits
the process without running atexit handlers.
"""
from __future__ import annotations
import argparse
import json
import os
import sys
import time


def main():
    ap = argparse.ArgumentParser()
    ap.add_argument("prop")
    ap.add_argument("maker")
    ap.add_argument("--runs", type=int, default=10000)
    ap.add_argument("--seed", type=int, default=1)
    ap.add_argument("--out", required=True)
    ap.add_argument("--corpus", default=None)
    a = ap.parse_args()
    sys.setrecursionlimit(20000)
    try:
        import atheris
    except Exception as ex:  # noqa
        json.dump({"skipped": f"atheris not importable: {ex}"}, open(a.out, "w"))
        return 0
    import logging
    logging.getLogger().handlers[:] = [logging.NullHandler()]
    with atheris.instrument_imports(include=["smoothmath"]):
        import smoothmath  # noqa
        import smoothmath.expression  # noqa
    from harness.runner import Stats, Violation, load_prop
    from harness.build import HarnessError
    mod = load_prop(a.prop)
    stats = Stats()
    test = getattr(mod, a.maker)(stats)
    fuzz_one = test.hypothesis.fuzz_one_input
    state = {"n": 0, "violations": {}, "error": None, "t0": time.time()}

    def flush():
        ex = stats.export()
        ex["nontrivial"] = [d.hex() for d in ex["nontrivial"]]
        tmp = a.out + ".tmp"
        with open(tmp, "w") as f:
            json.dump({"executions": state["n"], "stats": ex, "violations": list(state["violations"].values()),
                       "error": state["error"], "wall": time.time() - state["t0"]}, f)
        os.replace(tmp, a.out)

    def one(data):
        state["n"] += 1
        try:
            fuzz_one(data)
        except Violation as v:
            j = v.to_json()
            if (j["sub_check"], j["signature"]) not in state["violations"]:
                state["violations"][(j["sub_check"], j["signature"])] = j
                flush()
        except HarnessError as ex:
            state["error"] = f"HarnessError: {ex}"
            flush()
        except RecursionError:
            pass
        if state["n"] % 500 == 0 or state["n"] >= a.runs:
            flush()

    corpus = a.corpus or (a.out + ".corpus")
    os.makedirs(corpus, exist_ok=True)
    # kick-start: a few pseudo-random buffers long enough for Hypothesis to complete its draws
    # (derived from the seed only; the empty corpus is part of libFuzzer's own schedule anyway)
    import hashlib
    for k in range(8):
        buf = b"".join(hashlib.sha256(f"{a.seed}-{k}-{i}".encode()).digest() for i in range(64 * (k + 1)))
        with open(os.path.join(corpus, f"seed{k}"), "wb") as f:
            f.write(buf)
    argv = [sys.argv[0], f"-runs={a.runs}", f"-seed={a.seed if a.seed else 1}", "-max_len=16384", "-len_control=0",
            "-print_final_stats=0", "-verbosity=0", corpus]
    flush()
    atheris.Setup(argv, one)
    atheris.Fuzz()


if __name__ == "__main__":
    main()
